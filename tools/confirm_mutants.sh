#!/bin/bash
# usage: tools/confirm_mutants.sh <PROP>   -- confirm the seeded changes in /tmp/mut/<PROP>/out in that scratch worktree:
#   patch applies, crate builds (default + all features), the existing suite passes with it, demo fails with it and passes without.
# Confirmed ones are copied to /verif/seeded/<PROP>-m<k>/ (patch.diff, demo.rs, meta.json).
set -u
PROP="$1"; FEAT="${2:-}"; FEATARG=""; [ -n "$FEAT" ] && FEATARG="--features $FEAT"; WT=/tmp/mut/$PROP; OUT=$WT/out
cd "$WT" || exit 2
export CARGO_NET_OFFLINE=true CARGO_TERM_COLOR=never
for diff in "$OUT"/m*.diff; do
  k=$(basename "$diff" .diff); demo="$OUT/${k}_demo.rs"; meta="$OUT/$k.json"
  if [ ! -f "$demo" ] && [ -f "$OUT/${k}_demo.sh" ]; then
    git checkout -q -- . ; sh_demo="$OUT/${k}_demo.sh"
    bash "$sh_demo" >/dev/null 2>&1; c_rc=$?
    git apply "$diff"; bash "$sh_demo" >/dev/null 2>&1; m_rc=$?
    suite=$(cargo test --workspace --no-fail-fast --offline 2>&1 | grep -E "^test result" | awk '{p+=$4; f+=$6} END {print p" passed "f" failed"}')
    git checkout -q -- .
    echo "$PROP $k: shell demo clean_rc=$c_rc mutant_rc=$m_rc suite=[$suite]"
    if [ $c_rc = 0 ] && [ $m_rc != 0 ] && echo "$suite" | grep -q " 0 failed"; then
      d=/verif/seeded/$PROP-$k; mkdir -p "$d"; cp "$diff" "$d/patch.diff"; cp "$sh_demo" "$d/demo.sh"
      python3 - "$meta" "$d/meta.json" "$PROP" "exit $c_rc" "exit $m_rc" "$suite" <<'PY'
import json,sys
src,dst,prop,cd,md,suite=sys.argv[1:7]
try: m=json.load(open(src))
except Exception: m={}
out={"property":m.get("property",prop) if prop.startswith("X") else prop,"summary":m.get("summary",""),"needs":m.get("needs",""),"site":m.get("site",""),
 "origin":"independent sub-agent given only the property text and a scratch worktree",
 "confirmed":{"how":"tools/confirm_mutants.sh in the scratch worktree: shell demonstration (demo.sh) run with and without the patch; existing suite with the patch",
   "demo_on_clean_tree":cd,"demo_with_patch":md,"existing_suite_with_patch":suite}}
json.dump(out,open(dst,'w'),indent=1)
PY
      echo "$PROP $k: confirmed=1"
    fi
    continue
  fi
  [ -f "$demo" ] || { echo "$PROP $k: no demo"; continue; }
  git checkout -q -- . ; rm -f tests/m*_demo.rs
  cp "$demo" tests/${k}_demo.rs
  clean_demo=$(cargo test --offline $FEATARG --test ${k}_demo 2>&1 | grep -E "^test result" | head -1)
  git apply "$diff" || { echo "$PROP $k: patch does not apply"; rm -f tests/${k}_demo.rs; continue; }
  mut_out=$(cargo test --offline $FEATARG --test ${k}_demo 2>&1); mut_rc=$?
  mut_demo=$(echo "$mut_out" | grep -E "^test result" | head -1)
  [ -z "$mut_demo" ] && [ $mut_rc -ne 0 ] && mut_demo="FAILED (test process aborted: $(echo "$mut_out" | grep -E "signal|SIGABRT|SIGSEGV|overflowed its stack" | head -1 | cut -c1-160))"
  rm -f tests/${k}_demo.rs
  feat_build=$(cargo build --offline --features rand,serde,quickcheck,arbitrary 2>&1 | tail -1)
  suite=$(cargo test --workspace --no-fail-fast --offline 2>&1 | grep -E "^test result" | awk '{p+=$4; f+=$6} END {print p" passed "f" failed"}')
  git checkout -q -- .
  ok=1
  echo "$clean_demo" | grep -q "ok\." || ok=0
  echo "$mut_demo" | grep -q "FAILED" || ok=0
  echo "$suite" | grep -q " 0 failed" || ok=0
  echo "$feat_build" | grep -q "Finished" || ok=0
  echo "$PROP $k: clean_demo=[$clean_demo] mutant_demo=[$mut_demo] suite=[$suite] features=[$feat_build] confirmed=$ok"
  if [ $ok = 1 ]; then
    d=/verif/seeded/$PROP-$k; mkdir -p "$d"
    cp "$diff" "$d/patch.diff"; cp "$demo" "$d/demo.rs"
    python3 - "$meta" "$d/meta.json" "$PROP" "$clean_demo" "$mut_demo" "$suite" <<'PY'
import json,sys
src,dst,prop,cd,md,suite=sys.argv[1:7]
try: m=json.load(open(src))
except Exception: m={}
out={"property":m.get("property",prop) if prop.startswith("X") else prop,"summary":m.get("summary",""),"needs":m.get("needs",""),"site":m.get("site",""),
 "origin":"independent sub-agent given only the property text and a scratch worktree",
 "confirmed":{"how":"tools/confirm_mutants.sh in the scratch worktree: git apply patch.diff; cargo build --features rand,serde,quickcheck,arbitrary; cargo test --workspace --no-fail-fast --offline (existing suite, unedited); cargo test --test demo with and without the patch",
   "demo_on_clean_tree":cd,"demo_with_patch":md,"existing_suite_with_patch":suite}}
json.dump(out,open(dst,'w'),indent=1)
PY
  fi
done
