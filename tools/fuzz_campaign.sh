#!/bin/bash
# Coverage-guided campaign (libFuzzer + ASan, cargo-fuzz) for one property's operations.
#   tools/fuzz_campaign.sh <ID> [runs-per-job] [jobs]
# Prints VIOLATION lines (after decoding, re-checking and minimising each artifact) and writes
# work/fuzz_<ID>.txt (key=value summary picked up by the evidence writer).  Exit 0 / 1 / 2.
set -u
V="$(cd "$(dirname "${BASH_SOURCE[0]}")/.." && pwd)"
ID="$1"; RUNS="${2:-300000}"; JOBS="${3:-16}"
H="$V/harness"; F="$H/fuzz"; REL="$H/target/release/verif"
SEED="${VERIF_SEED:-0}"; [ "$SEED" = "0" ] && SEED=1   # libFuzzer: -seed=0 means random
export CARGO_NET_OFFLINE=true CARGO_TERM_COLOR=never RUSTFLAGS="--cfg num_bigint_verif"
SUM="$V/work/fuzz_$ID.txt"; mkdir -p "$V/work"; : > "$SUM"
t0=$(date +%s)
# the replay binaries used to confirm artifacts must be built from the same /repo tree as the fuzz target
( cd "$H" && env -u RUSTFLAGS cargo build --release -p verif >"$V/work/fuzz_build.log" 2>&1 && env -u RUSTFLAGS cargo build --profile dbg -p verif >>"$V/work/fuzz_build.log" 2>&1 ) || { echo "INCONCLUSIVE property=$ID harness does not build (work/fuzz_build.log)"; exit 2; }
( cd "$H" && cargo +nightly fuzz build case >>"$V/work/fuzz_build.log" 2>&1 ) || { echo "INCONCLUSIVE property=$ID fuzz target does not build (work/fuzz_build.log)"; exit 2; }
C="$F/corpus/$ID"; A="$F/artifacts/$ID"; rm -rf "$C" "$A"; mkdir -p "$C" "$A"
"$REL" fuzz-export "$ID" "$C" 400 >/dev/null
seeds=$(ls "$C" | wc -l)
L="$V/work/fuzz_$ID.logs"; rm -rf "$L"; mkdir -p "$L"
( cd "$L" && FUZZ_OWNER="$ID" "$F/target/x86_64-unknown-linux-gnu/release/case" "$C" -seed="$SEED" -runs="$RUNS" -len_control=0 -max_len=4096 -jobs="$JOBS" -workers="$JOBS" -artifact_prefix="$A/" -print_final_stats=1 >"$L/main.log" 2>&1 )
execs=$(grep -h "stat::number_of_executed_units" "$L"/fuzz-*.log 2>/dev/null | awk '{s+=$2} END {print s+0}')
cov=$(grep -h "cov:" "$L"/fuzz-*.log 2>/dev/null | sed 's/.*cov: \([0-9]*\).*/\1/' | sort -n | tail -1)
rc=0; nv=0
for art in "$A"/crash-* "$A"/timeout-* "$A"/oom-*; do
  [ -f "$art" ] || continue
  line=$(FUZZ_OWNER="$ID" "$REL" fuzz-decode "$ID" "$art")
  owner=$(echo "$line" | cut -f1); ctext=$(echo "$line" | cut -f2-)
  [ -z "$ctext" ] && continue
  case "$art" in */timeout-*|*/oom-*) echo "INCONCLUSIVE property=$ID libFuzzer $(basename "$art" | cut -d- -f1) on case: ${ctext:0:200}"; [ $rc -eq 0 ] && rc=2; continue;; esac
  tmp="$V/work/fuzz_$ID.case"; echo "$ctext" > "$tmp"
  # re-check through the ordinary replay path (release + dbg); only a confirmed failure is reported
  if "$REL" replay "$owner" "$tmp" >/dev/null 2>&1 && "$H/target/dbg/verif" replay "$owner" "$tmp" >/dev/null 2>&1; then
    echo "INCONCLUSIVE property=$ID fuzz artifact $(basename "$art") did not reproduce through replay: ${ctext:0:200}"; [ $rc -eq 0 ] && rc=2; continue
  fi
  min=$("$REL" minimise "$owner" "$tmp" 2>/dev/null | tail -1); [ -z "$min" ] && min="$ctext"
  h=$(echo "$min" | md5sum | cut -c1-16); mkdir -p "$V/replays/$owner"; rp="$V/replays/$owner/fuzz-$h.case"
  { echo "# property $owner"; echo "# origin libFuzzer campaign ($(basename "$art"))"; echo "$min"; } > "$rp"
  echo "VIOLATION property=$owner replay=$rp"; echo "  case: ${min:0:300}"; rc=1; nv=$((nv+1))
done
t1=$(date +%s)
{ echo "engine=libFuzzer (cargo-fuzz 0.13, ASan, debug assertions on) over verif::fuzzcodec byte encoding"; echo "executions=$execs"; echo "seed_inputs=$seeds"; echo "jobs=$JOBS"; echo "runs_per_job=$RUNS"; echo "final_edge_coverage=$cov"; echo "corpus_after=$(ls "$C" | wc -l)"; echo "violations=$nv"; echo "wall_s=$((t1-t0))"; echo "libfuzzer_seed=$SEED"; } > "$SUM"
echo "fuzz $ID: $execs executions from $seeds seed inputs, $nv violations, $((t1-t0))s"
exit $rc
