#!/bin/bash
# Run every seeded change in seeded/<PROP>-m<k>/ against its own property's quick check and print a table.
# By default works on /repo (apply, check, revert).  With REPO=<other checkout> (e.g. $VP_RUN_REPO under
# `vp run --with-repo`) the harness of THIS verif tree is pointed at that checkout first, so /repo is untouched.
set -u
V="$(cd "$(dirname "${BASH_SOURCE[0]}")/.." && pwd)"
REPO="${REPO:-/repo}"
if [ "$REPO" != "/repo" ]; then
  grep -rl '"/repo"\|/repo/Cargo.toml\|path = "/repo"' "$V/harness" --include=Cargo.toml --include=*.rs | xargs sed -i "s#\"/repo\"#\"$REPO\"#g; s#/repo/Cargo.toml#$REPO/Cargo.toml#g"
fi
OUT="$V/work/seeded_matrix.txt"; mkdir -p "$V/work"; : > "$OUT"
cd "$REPO" || exit 2
for d in "$V"/seeded/*/; do
  name=$(basename "$d"); prop=${name%%-*}
  # ONLY="C19 C20 X" restricts the run to seeded changes whose name starts with one of the given prefixes
  if [ -n "${ONLY:-}" ]; then keep=0; for pre in $ONLY; do case "$name" in $pre*) keep=1;; esac; done; [ $keep = 1 ] || continue; fi
  # free-choice changes (X<n>-m<k>) name the property they break in meta.json
  case "$prop" in X*) prop=$(python3 -c "import json;print(json.load(open('$d/meta.json'))['property'][:3])");; esac
  git checkout -q -- . ; git apply "$d/patch.diff" || { echo "$name APPLY-FAILED" | tee -a "$OUT"; continue; }
  out=$(cd "$V" && timeout 1500 ./check "$prop" quick 2>&1); rc=$?
  first=$(echo "$out" | grep -m1 "detail:" | cut -c1-200)
  echo "$name check=$prop rc=$rc $first" | tee -a "$OUT"
  git checkout -q -- .
done
