#!/usr/bin/env python3
"""Unbiased sensitivity probe: random syntactic mutants of the library.

For each of N randomly chosen mutation sites in REPO/src (operator / constant / condition tweaks), apply the
mutant, keep it only if the crate still builds and the existing test suite still passes ("survivor"), then run
every quick check and record which ones raise an alarm.  Survivors that no check flags are printed for manual
triage (equivalent mutant, out-of-scope behaviour, or a gap).  Usage:
    REPO=/path/to/checkout tools/random_mutants.py <N> <seed>
Never run with REPO=/repo while other work is using /repo.
"""
import os, re, random, subprocess, sys, json, glob
V = os.path.dirname(os.path.dirname(os.path.abspath(__file__)))
REPO = os.environ.get('REPO', '/repo')
N = int(sys.argv[1]) if len(sys.argv) > 1 else 10
seed = int(sys.argv[2]) if len(sys.argv) > 2 else 1
rng = random.Random(seed)
if REPO != '/repo':
    subprocess.run(r"""grep -rl '"/repo"\|/repo/Cargo.toml\|path = "/repo"' %s/harness --include=Cargo.toml --include=*.rs | xargs sed -i 's#"/repo"#"%s"#g; s#/repo/Cargo.toml#%s/Cargo.toml#g'""" % (V, REPO, REPO), shell=True)
OPS = [
    (r' \+ 1\b', ' + 0'), (r' - 1\b', ' - 0'), (r' \+ 1\b', ' + 2'),
    (r' < ', ' <= '), (r' <= ', ' < '), (r' > ', ' >= '), (r' >= ', ' > '),
    (r' == ', ' != '), (r' != ', ' == '), (r' && ', ' || '), (r' \|\| ', ' && '),
    (r'\.is_zero\(\)', '.is_one()'), (r'\bis_negative\(\)', 'is_positive()'),
    (r' >> ', ' << '), (r' \| ', ' & '), (r' & ', ' | '), (r'\bMinus\b', 'Plus'),
    (r'\bwrapping_add\b', 'wrapping_sub'), (r' / ', ' % '), (r' % ', ' / '),
    (r'\b0\.\.', '1..'), (r'!(\w)', r'\1'), (r'\bLess\b', 'Greater'), (r'\btrue\b', 'false'),
]
files = [f for f in glob.glob(REPO + '/src/**/*.rs', recursive=True) if 'verif_probe' not in f]
sites = []
for f in files:
    lines = open(f).read().split('\n')
    in_test = False
    for i, l in enumerate(lines):
        s = l.strip()
        if s.startswith('#[test]') or s.startswith('#[cfg(test)]'):
            in_test = True
        if in_test or s.startswith('//') or s.startswith('#[') or 'verif_probe' in l or 'debug_assert' in l or 'cfg_digit' in l:
            continue
        for k, (pat, rep) in enumerate(OPS):
            for m in re.finditer(pat, l):
                sites.append((f, i, m.start(), k))
rng.shuffle(sites)
def sh(cmd, cwd=None, timeout=3600):
    return subprocess.run(cmd, shell=True, cwd=cwd, capture_output=True, text=True, timeout=timeout)
out = open(os.path.join(V, 'work', 'random_mutants_%d.txt' % seed), 'w')
done = 0
tried = 0
for (f, i, col, k) in sites:
    if done >= N or tried >= N * 8:
        break
    tried += 1
    src = open(f).read()
    lines = src.split('\n')
    pat, rep = OPS[k]
    new_line = lines[i][:col] + re.sub(pat, rep, lines[i][col:], count=1)
    if new_line == lines[i]:
        continue
    lines2 = list(lines); lines2[i] = new_line
    open(f, 'w').write('\n'.join(lines2))
    desc = '%s:%d  [%s] -> [%s]' % (os.path.relpath(f, REPO), i + 1, lines[i].strip()[:90], new_line.strip()[:90])
    try:
        b = sh('cargo build --offline --features rand,serde,quickcheck,arbitrary 2>&1 | tail -1', cwd=REPO)
        if 'Finished' not in b.stdout:
            continue
        t = sh("cargo test --workspace --no-fail-fast --offline 2>&1 | grep -E '^test result' | awk '{f+=$6} END {print f+0}'", cwd=REPO, timeout=1800)
        if t.stdout.strip() != '0':
            print('KILLED-BY-SUITE', desc, file=out, flush=True)
            continue
        r = sh('./check all quick 2>&1', cwd=V, timeout=5400)
        flagged = sorted(set(re.findall(r'^VIOLATION property=(C\d+)', r.stdout, flags=re.M)))
        incon = sorted(set(re.findall(r'^(?:INCONCLUSIVE property=|BUILD-FAILED)(C?\d*)', r.stdout, flags=re.M)))
        done += 1
        print(('SURVIVOR-CAUGHT by ' + ','.join(flagged)) if flagged else 'SURVIVOR-NOT-CAUGHT', desc, file=out, flush=True)
        if incon:
            print('   inconclusive:', ','.join(incon), file=out, flush=True)
    except subprocess.TimeoutExpired:
        print('TIMEOUT', desc, file=out, flush=True)
    finally:
        open(f, 'w').write(src)
print('done: %d survivors examined, %d sites tried' % (done, tried), file=out, flush=True)
