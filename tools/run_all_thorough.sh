#!/bin/bash
# Run every thorough check once and print one summary line per property (trial run for budgets/timing).
# With REPO=<other checkout> the harness of THIS verif tree is pointed at that checkout first (see seeded_matrix.sh).
set -u
V="$(cd "$(dirname "${BASH_SOURCE[0]}")/.." && pwd)"; cd "$V"
REPO="${REPO:-/repo}"
if [ "$REPO" != "/repo" ]; then
  grep -rl '"/repo"\|/repo/Cargo.toml\|path = "/repo"' "$V/harness" --include=Cargo.toml --include=*.rs | xargs sed -i "s#\"/repo\"#\"$REPO\"#g; s#/repo/Cargo.toml#$REPO/Cargo.toml#g"
fi
./check setup >/dev/null 2>&1
for id in ${IDS:-$(harness/target/release/verif list)}; do
  t0=$(date +%s)
  out=$(./check $id thorough 2>&1); rc=$?   # VERIF_FUZZ_RUNS, if set, overrides the per-property libFuzzer run counts
  t1=$(date +%s)
  echo "$id rc=$rc total=$((t1-t0))s :: $(echo "$out" | grep -E "^fuzz |thorough:" | tr '\n' ' ' | cut -c1-300)"
  [ $rc -ne 0 ] && echo "$out" | grep -E "VIOLATION|detail|case:|INCONCLUSIVE" | head -8 | cut -c1-300
done
