# id -> (technique, level text, level note, design section)
ORACLE_NOTE = "Trusted base: the in-harness reference integer RefInt (self-checked division, cross-validated against CPython int by ./check selftest), proptest's generators/shrinker, and rustc. Exploration only: absence of violations is not proof."
CHECKS = {
 "C01": ("property-based testing (proptest): constructed carry/borrow families + special-digit operands, every operator form, differential against RefInt, in release and debug-assertion profiles",
         "Generated-input exploration of add/sub over all forms and both operand orders with operand families built to reach every asm-block / tail / propagation / growth branch (probe counters reported in evidence); a violation is shrunk to a minimal replayable case.",
         ORACLE_NOTE, "DESIGN.md section 3 C01"),
 "C03": ("property-based testing (proptest): constructed add-back / top-digit-equal / shift / near-product families, unique-solution predicate a=q*b+r with per-convention range+sign conditions evaluated in RefInt, all API forms, zero-divisor clause",
         "Generated-input exploration of every division API and convention; the rare Knuth-D branches (add-back, top digit equal, refinement) are reached by construction and counted by probes in the evidence.",
         ORACLE_NOTE, "DESIGN.md section 3 C03"),
}
_pending = "check not built yet in this revision (work in progress; see DESIGN.md section 9 build order)"
NOT_APPLICABLE = {pid: _pending for pid in props if pid not in CHECKS}
