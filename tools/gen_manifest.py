#!/usr/bin/env python3
"""Regenerate /verif/MANIFEST.json from the table below (kept in one place so it stays valid)."""
import json, os, subprocess
V = os.path.dirname(os.path.dirname(os.path.abspath(__file__)))
props = {}
for l in open(os.path.join(V, 'properties.jsonl')):
    p = json.loads(l); props[p['id']] = p

# id -> (technique, level text, level note, design section)
CHECKS = {}
NOT_APPLICABLE = {}
exec(open(os.path.join(V, 'tools', 'manifest_table.py')).read())

hook_commits = subprocess.run(['git', '-C', '/repo', 'log', '--format=%H', '--grep=^verif hooks'], capture_output=True, text=True).stdout.split()
m = {
    "version": 1,
    "setup_cmd": "./check setup",
    "hooks": {
        "guard": "num_bigint_verif",
        "enable": "harness/.cargo/config.toml passes --cfg num_bigint_verif via build.rustflags; num-bigint is a path dependency on /repo, so every check rebuilds /repo's working tree with src/verif_probe.rs and the probe statements compiled in",
        "baseline_off_cmd": "cd /repo && cargo test --workspace --no-fail-fast --offline",
        "source_commits": hook_commits,
        "add_only": True,
    },
    "engines": [
        {"name": "verif", "path": "harness/verif", "serves_properties": sorted(CHECKS.keys()),
         "kind_free_text": "libFuzzer target harness/fuzz (bytes -> verif::fuzzcodec -> the same Case oracles) for the thorough tier; proptest-driven generators (TestRunner with fixed ChaCha seed derived from VERIF_SEED) + independent reference integer (RefInt, u32 limbs, cross-checked against CPython) + worker processes, crash/hang attribution, two-stage shrinking, corpus replay tier"},
    ],
    "checks": [],
    "not_applicable": [{"property_id": k, "reason": v} for k, v in sorted(NOT_APPLICABLE.items())],
    "notes": "exit codes: 0 held on everything explored, 1 VIOLATION (replay file written under replays/<ID>/), 2 inconclusive (build failure, oracle self-check failure, watchdog, crashed worker that did not reproduce). known_findings.txt lists fixed and known findings.",
}
FUZZED = "C01 C02 C03 C04 C05 C06 C07 C08 C09 C10 C12 C13 C17 C18 C19".split()   # keep in step with ./check
for pid in sorted(CHECKS):
    tech, text, note, ref = CHECKS[pid]
    if pid in FUZZED:
        tech += "; the thorough tier first runs a coverage-guided libFuzzer campaign (cargo-fuzz, ASan, 16 jobs) whose byte inputs decode into the same cases and run the same oracle"
    m["checks"].append({
        "property_id": pid,
        "quick_cmd": f"./check {pid} quick",
        "thorough_cmd": f"./check {pid} thorough",
        "evidence_file": f"/verif/evidence/{pid}.json",
        "replay_cmd_template": f"./check {pid} --replay {{path}}",
        "engine": "verif",
        "level_claimed": {"category": "exploration", "text": text, "design_ref": ref},
        "level_note": note,
        "technique": tech,
    })
json.dump(m, open(os.path.join(V, 'MANIFEST.json'), 'w'), indent=1)
print("MANIFEST.json:", len(m["checks"]), "checks,", len(m["not_applicable"]), "not applicable")
