#!/bin/bash
# Build the nbexec executor in every flavour (num-bigint feature set x profile) from /repo's
# current working tree.  Output: harness/target/fl/<flavour>/<profile>/nbexec
set -u
H="$(cd "$(dirname "${BASH_SOURCE[0]}")/../harness" && pwd)"
cd "$H" || exit 2
export CARGO_NET_OFFLINE=true CARGO_TERM_COLOR=never
LOG="$H/../work/flavours.log"; mkdir -p "$H/../work"; : > "$LOG"
declare -A FEATS=( [std_all]="std,rand,serde,quickcheck,arbitrary" [std]="std" [nostd_rs]="rand,serde" [nostd]="" )
pids=(); names=()
for fl in std_all std nostd_rs nostd; do
  for prof in release dbg; do
    ( cargo build -p nbexec --no-default-features --features "${FEATS[$fl]}" --profile $prof --target-dir "target/fl/$fl" >>"$LOG.$fl.$prof" 2>&1 ) &
    pids+=($!); names+=("$fl/$prof")
  done
done
rc=0
for i in "${!pids[@]}"; do
  if ! wait "${pids[$i]}"; then echo "FLAVOUR-BUILD-FAILED ${names[$i]}"; rc=1; fi
done
cat "$LOG".* >> "$LOG" 2>/dev/null; rm -f "$LOG".*
exit $rc
