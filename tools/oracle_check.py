#!/usr/bin/env python3
"""Cross-validate the harness's reference integer (RefInt) against CPython's int.

Reads the lines printed by `verif selftest-dump` on stdin; exits 0 if every line agrees.
"""
import sys, struct, math

def I(s):
    return int(s, 16)

def f64bits(x):
    try:
        f = float(x)
    except OverflowError:
        f = math.inf if x > 0 else -math.inf
    return struct.unpack('<Q', struct.pack('<d', f))[0]

def f32bits(x):
    # correctly rounded int -> f32: do it exactly with integers
    neg = x < 0
    m = abs(x)
    if m == 0:
        return 0
    bits = m.bit_length()
    if bits <= 24:
        sig, exp = m, 0
    else:
        sh = bits - 24
        sig = m >> sh
        rnd = (m >> (sh - 1)) & 1
        sticky = (m & ((1 << (sh - 1)) - 1)) != 0
        exp = sh
        if rnd and (sticky or (sig & 1)):
            sig += 1
            if sig == 1 << 24:
                sig >>= 1
                exp += 1
    top = sig.bit_length() - 1
    e = exp + top
    if e > 127:
        b = 0x7f800000
    else:
        frac = (sig << (23 - top)) & ((1 << 23) - 1)
        b = ((e + 127) << 23) | frac
    return b | (0x80000000 if neg else 0)

def floordivmod(a, b):
    return a // b, a % b

def truncdivmod(a, b):
    q = abs(a) // abs(b)
    if (a < 0) != (b < 0):
        q = -q
    return q, a - q * b

def eucliddivmod(a, b):
    r = a % abs(b)
    return (a - r) // b, r

bad = 0
n = 0
for line in sys.stdin:
    p = line.rstrip('\n').split('\t')
    if not p or not p[0]:
        continue
    n += 1
    op = p[0]
    ok = True
    try:
        if op == 'add': ok = I(p[1]) + I(p[2]) == I(p[3])
        elif op == 'sub': ok = I(p[1]) - I(p[2]) == I(p[3])
        elif op == 'mul': ok = I(p[1]) * I(p[2]) == I(p[3])
        elif op == 'divtrunc': ok = truncdivmod(I(p[1]), I(p[2])) == (I(p[3]), I(p[4]))
        elif op == 'divfloor': ok = floordivmod(I(p[1]), I(p[2])) == (I(p[3]), I(p[4]))
        elif op == 'diveuclid': ok = eucliddivmod(I(p[1]), I(p[2])) == (I(p[3]), I(p[4]))
        elif op == 'divceil': ok = -((-I(p[1])) // I(p[2])) == I(p[3])
        elif op == 'shl': ok = I(p[1]) << int(p[2]) == I(p[3])
        elif op == 'shr': ok = I(p[1]) >> int(p[2]) == I(p[3])
        elif op == 'and': ok = I(p[1]) & I(p[2]) == I(p[3])
        elif op == 'or': ok = I(p[1]) | I(p[2]) == I(p[3])
        elif op == 'xor': ok = I(p[1]) ^ I(p[2]) == I(p[3])
        elif op == 'not': ok = ~I(p[1]) == I(p[2])
        elif op == 'pow': ok = I(p[1]) ** int(p[2]) == I(p[3])
        elif op == 'gcd': ok = math.gcd(I(p[1]), I(p[2])) == I(p[3])
        elif op == 'str': ok = int(p[3], int(p[2])) == I(p[1]) and (p[3].lstrip('-') == '0' or not p[3].lstrip('-').startswith('0')) and p[3] == p[3].lower()
        elif op == 'radixle':
            x = I(p[1]); r = int(p[2]); d = []
            while x: d.append(x % r); x //= r
            ok = ','.join(map(str, d)) == p[3]
        elif op == 'fromradix':
            r = int(p[2]); x = 0
            ds = [int(t) for t in p[1].split(',')] if p[1] else []
            for dgt in reversed(ds): x = x * r + dgt
            ok = x == I(p[3])
        elif op == 'f64': ok = f64bits(I(p[1])) == int(p[2], 16)
        elif op == 'f32': ok = f32bits(I(p[1])) == int(p[2], 16)
        elif op == 'sbytes':
            x = I(p[1]); nb = max(1, ((x if x >= 0 else ~x).bit_length() + 8) // 8)
            ok = x.to_bytes(nb, 'little', signed=True).hex() == p[2]
        elif op == 'fromsbytes': ok = int.from_bytes(bytes.fromhex(p[1]), 'little', signed=True) == I(p[2])
        elif op == 'modpow': ok = pow(I(p[1]), I(p[2]), I(p[3])) == I(p[4])
        elif op == 'bit': ok = ((I(p[1]) >> int(p[2])) & 1) == int(p[3])
        elif op == 'setbit':
            x = I(p[1]); i = int(p[2])
            want = (x | (1 << i)) if p[3] == '1' else (x & ~(1 << i))
            ok = want == I(p[4])
        elif op == 'bitinfo':
            x = I(p[1])
            tz = -1 if x == 0 else (x & -x).bit_length() - 1
            to = ((~x) & (x + 1)).bit_length() - 1
            ok = (x.bit_length(), tz, to, bin(x).count('1')) == (int(p[2]), int(p[3]), int(p[4]), int(p[5]))
        elif op == 'truncf64':
            f = struct.unpack('<d', struct.pack('<Q', int(p[1], 16)))[0]
            want = 'none' if (math.isnan(f) or math.isinf(f)) else int(f)
            ok = (p[2] == 'none') if want == 'none' else (p[2] != 'none' and I(p[2]) == want)
        elif op == 'truncf32':
            f = struct.unpack('<f', struct.pack('<I', int(p[1], 16)))[0]
            want = 'none' if (math.isnan(f) or math.isinf(f)) else int(f)
            ok = (p[2] == 'none') if want == 'none' else (p[2] != 'none' and I(p[2]) == want)
        elif op == 'fp': ok = I(p[1]) % int(p[2]) == int(p[3])
        elif op == 'cmp':
            a, b = I(p[1]), I(p[2]); ok = ((a > b) - (a < b)) == int(p[3])
        else:
            ok = False
    except Exception as e:
        ok = False
        print('exception', e, file=sys.stderr)
    if not ok:
        bad += 1
        if bad <= 10:
            print('MISMATCH', line[:400], file=sys.stderr)
print(f'oracle_check: {n} lines, {bad} mismatches')
sys.exit(1 if bad or n == 0 else 0)
