#!/bin/bash
# usage: tools/try_mutant.sh <patch.diff> <ID> [<ID>...]   -- apply a seeded change to /repo, run quick checks, revert.
set -u
P="$1"; shift
cd /repo || exit 2
if [ -n "$(git status --porcelain --untracked-files=no)" ]; then echo "/repo not clean"; exit 2; fi
git apply "$P" || { echo "patch does not apply"; exit 2; }
trap 'git -C /repo checkout -- . ' EXIT
for id in "$@"; do
  out=$(cd /verif && VERIF_SEED=${VERIF_SEED:-0} ./check "$id" ${TIER:-quick} 2>&1); rc=$?
  echo "== $id rc=$rc"; echo "$out" | grep -E "VIOLATION|detail|case:|INCONCLUSIVE|BUILD" | head -${LINES_SHOWN:-6} | cut -c1-260
done
