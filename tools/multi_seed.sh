#!/bin/bash
# run every quick check under several seeds; print one line per (seed, check); non-zero exit if any is not silent
V="$(cd "$(dirname "${BASH_SOURCE[0]}")/.." && pwd)"; cd "$V"
bad=0
for seed in "$@"; do
  for id in $(harness/target/release/verif list); do
    out=$(VERIF_SEED=$seed ./check $id quick 2>&1); rc=$?
    echo "seed=$seed $(echo "$out" | tail -1) rc=$rc"
    if [ $rc -ne 0 ]; then bad=1; echo "$out" | grep -E "VIOLATION|detail|case:|INCONCLUSIVE" | head -6; fi
  done
done
exit $bad
