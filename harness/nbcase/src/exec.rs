//! Executor for the flavour binaries (filled in with C11/C16).
use crate::Case;

pub fn exec(case: &Case) -> String {
    format!("unsupported {}", case.op)
}
