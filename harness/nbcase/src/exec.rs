//! Executor for the flavour binaries (`nbexec`) and for in-process comparison: runs a
//! cross-section of value-level operations on a `Case` and renders every outcome as text.
//! The same source is compiled against num-bigint with and without `std` (and with/without the
//! optional features), so the rendered text can be compared byte for byte across configurations.

use crate::Case;
use num_bigint::{BigInt, BigUint, Sign};
use num_integer::{Integer, Roots};
use num_traits::{FromPrimitive, Num, Pow, ToPrimitive};
use std::fmt::Write;

fn bu(d: &[u64]) -> BigUint {
    let mut v = Vec::with_capacity(d.len() * 2);
    for &x in d {
        v.push(x as u32);
        v.push((x >> 32) as u32);
    }
    BigUint::new(v)
}
fn bi(neg: bool, d: &[u64]) -> BigInt {
    BigInt::from_biguint(if neg { Sign::Minus } else { Sign::Plus }, bu(d))
}

fn guard<T>(f: impl FnOnce() -> T) -> Result<T, ()> {
    std::panic::catch_unwind(std::panic::AssertUnwindSafe(f)).map_err(|_| ())
}

fn put(out: &mut String, key: &str, f: impl FnOnce() -> String) {
    let _ = match guard(f) {
        Ok(s) => write!(out, "{}={};", key, s),
        Err(()) => write!(out, "{}=PANIC;", key),
    };
}

fn hx(x: &BigInt) -> String {
    // rendering through the digit export, not through the radix code under test
    let (s, d) = x.to_u64_digits();
    let mut o = String::new();
    if s == Sign::Minus {
        o.push('-');
    }
    if d.is_empty() {
        o.push('0');
    }
    for (i, w) in d.iter().rev().enumerate() {
        if i == 0 {
            let _ = write!(o, "{:x}", w);
        } else {
            let _ = write!(o, "{:016x}", w);
        }
    }
    o
}
fn hxu(x: &BigUint) -> String {
    hx(&BigInt::from(x.clone()))
}

pub fn install_quiet_hook() {
    std::panic::set_hook(Box::new(|_| {}));
}

pub fn exec(case: &Case) -> String {
    let mut o = String::new();
    match case.op.as_str() {
        "xs.arith" => {
            let (sa, a) = case.z(0);
            let (sb, b) = case.z(1);
            let (x, y) = (bi(sa, a), bi(sb, b));
            put(&mut o, "add", || hx(&(&x + &y)));
            put(&mut o, "sub", || hx(&(&x - &y)));
            put(&mut o, "mul", || hx(&(&x * &y)));
            put(&mut o, "div", || hx(&(&x / &y)));
            put(&mut o, "rem", || hx(&(&x % &y)));
            put(&mut o, "divfloor", || { let (q, r) = x.div_mod_floor(&y); format!("{},{}", hx(&q), hx(&r)) });
            put(&mut o, "gcd", || hx(&x.gcd(&y)));
            put(&mut o, "lcm", || hx(&x.lcm(&y)));
            put(&mut o, "and", || hx(&(&x & &y)));
            put(&mut o, "or", || hx(&(&x | &y)));
            put(&mut o, "xor", || hx(&(&x ^ &y)));
            put(&mut o, "usub", || hxu(&(x.magnitude() - y.magnitude())));
            put(&mut o, "cmp", || format!("{:?}", x.cmp(&y)));
        }
        "xs.radix" => {
            let (sa, a) = case.z(0);
            let r = case.u(1) as u32;
            let r2 = case.u(2) as u32;
            let x = bi(sa, a);
            put(&mut o, "str", || x.to_str_radix(r));
            put(&mut o, "parse", || {
                let s = x.to_str_radix(r);
                match BigInt::from_str_radix(&s, r) {
                    Ok(v) => hx(&v),
                    Err(_) => "ERR".into(),
                }
            });
            put(&mut o, "radix_le", || format!("{:?}", x.magnitude().to_radix_le(r2)));
            put(&mut o, "radix_be", || format!("{:?}", x.to_radix_be(r2)));
            put(&mut o, "from_radix_le", || {
                let d = x.magnitude().to_radix_le(r2);
                match BigUint::from_radix_le(&d, r2) {
                    Some(v) => hxu(&v),
                    None => "NONE".into(),
                }
            });
            put(&mut o, "dec", || format!("{}", x));
        }
        "xs.parse" => {
            let s = case.s(0);
            let r = case.u(1) as u32;
            put(&mut o, "int", || match BigInt::from_str_radix(s, r) {
                Ok(v) => hx(&v),
                Err(_) => "ERR".into(),
            });
            put(&mut o, "uint", || match BigUint::from_str_radix(s, r) {
                Ok(v) => hxu(&v),
                Err(_) => "ERR".into(),
            });
            put(&mut o, "bytes", || match BigInt::parse_bytes(s.as_bytes(), r) {
                Some(v) => hx(&v),
                None => "NONE".into(),
            });
        }
        "xs.root" => {
            let (sa, a) = case.z(0);
            let n = case.u(1) as u32;
            let x = bi(sa, a);
            put(&mut o, "sqrt", || hx(&x.sqrt()));
            put(&mut o, "cbrt", || hx(&x.cbrt()));
            put(&mut o, "nth", || hx(&x.nth_root(n)));
            put(&mut o, "usqrt", || hxu(&x.magnitude().sqrt()));
            put(&mut o, "ucbrt", || hxu(&x.magnitude().cbrt()));
            put(&mut o, "unth", || hxu(&x.magnitude().nth_root(n)));
        }
        "xs.float" => {
            let (sa, a) = case.z(0);
            let x = bi(sa, a);
            put(&mut o, "f64", || format!("{:?}", x.to_f64().map(f64::to_bits)));
            put(&mut o, "f32", || format!("{:?}", x.to_f32().map(f32::to_bits)));
            put(&mut o, "uf64", || format!("{:?}", x.magnitude().to_f64().map(f64::to_bits)));
            put(&mut o, "from", || match x.to_f64().and_then(BigInt::from_f64) {
                Some(v) => hx(&v),
                None => "NONE".into(),
            });
        }
        "xs.fromf" => {
            let bits = case.u(0) as u64;
            let f = f64::from_bits(bits);
            put(&mut o, "i", || match BigInt::from_f64(f) {
                Some(v) => hx(&v),
                None => "NONE".into(),
            });
            put(&mut o, "u", || match BigUint::from_f64(f) {
                Some(v) => hxu(&v),
                None => "NONE".into(),
            });
            put(&mut o, "f32", || match BigInt::from_f32(f32::from_bits(bits as u32)) {
                Some(v) => hx(&v),
                None => "NONE".into(),
            });
        }
        "xs.shift" => {
            let (sa, a) = case.z(0);
            let k = case.u(1) as u64;
            let x = bi(sa, a);
            put(&mut o, "shl", || hx(&(&x << (k % 4096))));
            put(&mut o, "shr", || hx(&(&x >> k)));
            put(&mut o, "pow", || hx(&Pow::pow(&x, (k % 9) as u32)));
            put(&mut o, "bits", || format!("{}", x.bits()));
            put(&mut o, "tz", || format!("{:?}", x.trailing_zeros()));
            put(&mut o, "bit", || format!("{}", x.bit(k)));
            put(&mut o, "sbytes", || format!("{:?}", x.to_signed_bytes_le()));
            put(&mut o, "not", || hx(&!&x));
        }
        "xs.fmt" => {
            let (sa, a) = case.z(0);
            let w = (case.u(1) % 48) as usize;
            let x = bi(sa, a);
            let u = x.magnitude().clone();
            put(&mut o, "d", || format!("{}|{:+}|{:>w$}|{:<w$}|{:^w$}|{:0w$}|{:+0w$}", x, x, x, x, x, x, x, w = w));
            put(&mut o, "x", || format!("{:x}|{:#x}|{:#0w$x}|{:*>w$x}|{:X}|{:#X}", x, x, x, x, x, x, w = w));
            put(&mut o, "o", || format!("{:o}|{:#o}|{:#0w$o}", x, x, x, w = w));
            put(&mut o, "b", || format!("{:b}|{:#b}|{:#0w$b}", x, x, x, w = w));
            put(&mut o, "ud", || format!("{}|{:+}|{:0w$}|{:x}|{:#X}|{:o}|{:#b}", u, u, u, u, u, u, u, w = w));
            put(&mut o, "dbg", || format!("{:?}|{:?}", x, u));
        }
        "xs.modpow" => {
            let (sa, a) = case.z(0);
            let e = case.n(1);
            let (sm, m) = case.z(2);
            let (x, y, z) = (bi(sa, a), bi(false, e), bi(sm, m));
            put(&mut o, "modpow", || hx(&x.modpow(&y, &z)));
            put(&mut o, "umodpow", || hxu(&x.magnitude().modpow(y.magnitude(), z.magnitude())));
            put(&mut o, "modinv", || match x.modinv(&z) {
                Some(v) => hx(&v),
                None => "NONE".into(),
            });
        }
        "xs.prim" => {
            let (sa, a) = case.z(0);
            let x = bi(sa, a);
            put(&mut o, "i64", || format!("{:?}", x.to_i64()));
            put(&mut o, "u64", || format!("{:?}", x.to_u64()));
            put(&mut o, "i128", || format!("{:?}", x.to_i128()));
            put(&mut o, "u128", || format!("{:?}", x.to_u128()));
            put(&mut o, "i8", || format!("{:?}", x.to_i8()));
            put(&mut o, "u32", || format!("{:?}", x.to_u32()));
            put(&mut o, "bytes", || format!("{:?}", x.to_bytes_be()));
            put(&mut o, "u32d", || format!("{:?}", x.to_u32_digits()));
        }
        "xs.bits" => {
            let (sa, a) = case.z(0);
            let i = case.u(1) as u64;
            let x = bi(sa, a);
            put(&mut o, "set1", || { let mut t = x.clone(); t.set_bit(i, true); hx(&t) });
            put(&mut o, "set0", || { let mut t = x.clone(); t.set_bit(i, false); hx(&t) });
            put(&mut o, "uset1", || { let mut t = x.magnitude().clone(); t.set_bit(i, true); hxu(&t) });
            put(&mut o, "uset0", || { let mut t = x.magnitude().clone(); t.set_bit(i, false); hxu(&t) });
            put(&mut o, "bit", || format!("{}", x.bit(i)));
            put(&mut o, "ones", || format!("{},{}", x.magnitude().trailing_ones(), x.magnitude().count_ones()));
            put(&mut o, "neg", || hx(&-&x));
            put(&mut o, "inc", || { let mut t = x.clone(); t.inc(); hx(&t) });
            put(&mut o, "dec", || { let mut t = x.clone(); t.dec(); hx(&t) });
        }
        "xs.bytes" => {
            let b = case.b(0);
            put(&mut o, "sle", || hx(&BigInt::from_signed_bytes_le(b)));
            put(&mut o, "sbe", || hx(&BigInt::from_signed_bytes_be(b)));
            put(&mut o, "ule", || hxu(&BigUint::from_bytes_le(b)));
            put(&mut o, "ube", || hxu(&BigUint::from_bytes_be(b)));
            put(&mut o, "rt", || format!("{:?}", BigInt::from_signed_bytes_le(b).to_signed_bytes_be()));
            put(&mut o, "radix", || match BigUint::from_radix_be(b, 256) { Some(v) => hxu(&v), None => "NONE".into() });
        }
        "xs.euclid" => {
            use num_traits::Euclid;
            let (sa, a) = case.z(0);
            let (sb, b) = case.z(1);
            let (x, y) = (bi(sa, a), bi(sb, b));
            put(&mut o, "euclid", || { let (q, r) = x.div_rem_euclid(&y); format!("{},{}", hx(&q), hx(&r)) });
            put(&mut o, "ceil", || hx(&Integer::div_ceil(&x, &y)));
            put(&mut o, "egcd", || { let e = x.extended_gcd(&y); format!("{},{},{}", hx(&e.gcd), hx(&e.x), hx(&e.y)) });
            put(&mut o, "next", || hx(&x.next_multiple_of(&y)));
            put(&mut o, "prev", || hx(&x.prev_multiple_of(&y)));
            put(&mut o, "ismul", || format!("{}", x.is_multiple_of(&y)));
            put(&mut o, "ucheckedsub", || format!("{:?}", num_traits::CheckedSub::checked_sub(x.magnitude(), y.magnitude()).map(|v| hxu(&v))));
        }
        "xs.serde" => {
            #[cfg(feature = "serde")]
            {
                let (sa, a) = case.z(0);
                let x = bi(sa, a);
                put(&mut o, "ser_i", || feature_ops::ser_text(&x));
                put(&mut o, "ser_u", || feature_ops::ser_text(x.magnitude()));
                put(&mut o, "de_u", || feature_ops::de_biguint(&x.magnitude().to_u32_digits(), case.u(1) as usize % 4));
                put(&mut o, "de_i", || feature_ops::de_bigint(x.sign(), &x.magnitude().to_u32_digits()));
            }
            #[cfg(not(feature = "serde"))]
            o.push_str("feature-off");
        }
        "xs.rand" => {
            #[cfg(feature = "rand")]
            {
                use num_bigint::RandBigInt;
                let prefix = case.b(0);
                let seed = case.u(1) as u64;
                let bits = case.u(2) as u64 % 2100;
                let (sl, lo) = case.z(3);
                let (sh, hi) = case.z(4);
                let (l, h) = (bi(sl, lo), bi(sh, hi));
                put(&mut o, "bits", || hxu(&feature_ops::StreamRng::new(prefix, seed).gen_biguint(bits)));
                put(&mut o, "ibits", || hx(&feature_ops::StreamRng::new(prefix, seed).gen_bigint(bits)));
                put(&mut o, "below", || hxu(&feature_ops::StreamRng::new(prefix, seed).gen_biguint_below(h.magnitude())));
                put(&mut o, "irange", || hx(&feature_ops::StreamRng::new(prefix, seed).gen_bigint_range(&l, &h)));
                put(&mut o, "urange", || hxu(&feature_ops::StreamRng::new(prefix, seed).gen_biguint_range(l.magnitude(), h.magnitude())));
            }
            #[cfg(not(feature = "rand"))]
            o.push_str("feature-off");
        }
        other => {
            let _ = write!(o, "unsupported {}", other);
        }
    }
    o
}

/// extract `key=value;` from an exec outcome
pub fn field<'a>(outcome: &'a str, key: &str) -> Option<&'a str> {
    for part in outcome.split(';') {
        if let Some(rest) = part.strip_prefix(key) {
            if let Some(v) = rest.strip_prefix('=') {
                return Some(v);
            }
        }
    }
    None
}


/// operations that exist only with optional features of num-bigint (compared between the flavours that have them)
#[cfg(any(feature = "serde", feature = "rand"))]
pub mod feature_ops {
    #[cfg(feature = "rand")]
    pub struct StreamRng {
        prefix: Vec<u8>,
        pos: usize,
        state: u64,
        buf: [u8; 8],
        buf_pos: usize,
    }
    #[cfg(feature = "rand")]
    impl StreamRng {
        pub fn new(prefix: &[u8], seed: u64) -> StreamRng {
            StreamRng { prefix: prefix.to_vec(), pos: 0, state: seed, buf: [0; 8], buf_pos: 8 }
        }
        fn byte(&mut self) -> u8 {
            if self.pos < self.prefix.len() {
                self.pos += 1;
                return self.prefix[self.pos - 1];
            }
            if self.buf_pos == 8 {
                self.state = self.state.wrapping_add(0x9E3779B97F4A7C15);
                let mut z = self.state;
                z = (z ^ (z >> 30)).wrapping_mul(0xBF58476D1CE4E5B9);
                z = (z ^ (z >> 27)).wrapping_mul(0x94D049BB133111EB);
                z ^= z >> 31;
                self.buf = z.to_le_bytes();
                self.buf_pos = 0;
            }
            self.buf_pos += 1;
            self.buf[self.buf_pos - 1]
        }
    }
    #[cfg(feature = "rand")]
    impl rand::RngCore for StreamRng {
        fn next_u32(&mut self) -> u32 {
            u32::from_le_bytes([self.byte(), self.byte(), self.byte(), self.byte()])
        }
        fn next_u64(&mut self) -> u64 {
            let lo = self.next_u32() as u64;
            let hi = self.next_u32() as u64;
            lo | (hi << 32)
        }
        fn fill_bytes(&mut self, dest: &mut [u8]) {
            for d in dest.iter_mut() {
                *d = self.byte();
            }
        }
        fn try_fill_bytes(&mut self, dest: &mut [u8]) -> Result<(), rand::Error> {
            self.fill_bytes(dest);
            Ok(())
        }
    }

    #[cfg(feature = "serde")]
    mod ser {
        use serde::ser::{self, Impossible, Serialize, SerializeSeq, SerializeTuple};
        use std::fmt::{self, Write};
        #[derive(Debug)]
        pub struct E(pub String);
        impl fmt::Display for E {
            fn fmt(&self, f: &mut fmt::Formatter<'_>) -> fmt::Result {
                f.write_str(&self.0)
            }
        }
        impl serde::de::StdError for E {}
        impl ser::Error for E {
            fn custom<T: fmt::Display>(m: T) -> Self {
                E(m.to_string())
            }
        }
        /// renders the token stream as text
        pub struct T;
        pub struct Seq(String, bool);
        impl SerializeSeq for Seq {
            type Ok = String;
            type Error = E;
            fn serialize_element<V: ?Sized + Serialize>(&mut self, v: &V) -> Result<(), E> {
                let t = v.serialize(T)?;
                let _ = write!(self.0, "{} ", t);
                Ok(())
            }
            fn end(self) -> Result<String, E> {
                Ok(format!("{}{}", self.0, if self.1 { ")" } else { "]" }))
            }
        }
        impl SerializeTuple for Seq {
            type Ok = String;
            type Error = E;
            fn serialize_element<V: ?Sized + Serialize>(&mut self, v: &V) -> Result<(), E> {
                SerializeSeq::serialize_element(self, v)
            }
            fn end(self) -> Result<String, E> {
                SerializeSeq::end(self)
            }
        }
        macro_rules! prim {
            ($($name:ident($t:ty)),*) => {$( fn $name(self, v: $t) -> Result<String, E> { Ok(format!("{}:{:?}", stringify!($name), v)) } )*};
        }
        impl ser::Serializer for T {
            type Ok = String;
            type Error = E;
            type SerializeSeq = Seq;
            type SerializeTuple = Seq;
            type SerializeTupleStruct = Impossible<String, E>;
            type SerializeTupleVariant = Impossible<String, E>;
            type SerializeMap = Impossible<String, E>;
            type SerializeStruct = Impossible<String, E>;
            type SerializeStructVariant = Impossible<String, E>;
            prim!(serialize_bool(bool), serialize_i8(i8), serialize_i16(i16), serialize_i32(i32), serialize_i64(i64), serialize_u8(u8), serialize_u16(u16), serialize_u32(u32), serialize_u64(u64), serialize_f32(f32), serialize_f64(f64), serialize_char(char), serialize_str(&str), serialize_bytes(&[u8]));
            fn collect_str<V: ?Sized + fmt::Display>(self, v: &V) -> Result<String, E> { Ok(format!("str:{}", v)) }
            fn serialize_none(self) -> Result<String, E> { Ok("none".into()) }
            fn serialize_some<V: ?Sized + Serialize>(self, v: &V) -> Result<String, E> { v.serialize(T) }
            fn serialize_unit(self) -> Result<String, E> { Ok("unit".into()) }
            fn serialize_unit_struct(self, _n: &'static str) -> Result<String, E> { Ok("unit_struct".into()) }
            fn serialize_unit_variant(self, _n: &'static str, _i: u32, v: &'static str) -> Result<String, E> { Ok(format!("variant:{}", v)) }
            fn serialize_newtype_struct<V: ?Sized + Serialize>(self, _n: &'static str, v: &V) -> Result<String, E> { v.serialize(T) }
            fn serialize_newtype_variant<V: ?Sized + Serialize>(self, _n: &'static str, _i: u32, _v: &'static str, v: &V) -> Result<String, E> { v.serialize(T) }
            fn serialize_seq(self, len: Option<usize>) -> Result<Seq, E> { Ok(Seq(format!("seq{:?}[", len), false)) }
            fn serialize_tuple(self, len: usize) -> Result<Seq, E> { Ok(Seq(format!("tuple{}(", len), true)) }
            fn serialize_tuple_struct(self, _n: &'static str, _l: usize) -> Result<Self::SerializeTupleStruct, E> { Err(E("tuple_struct".into())) }
            fn serialize_tuple_variant(self, _n: &'static str, _i: u32, _v: &'static str, _l: usize) -> Result<Self::SerializeTupleVariant, E> { Err(E("tuple_variant".into())) }
            fn serialize_map(self, _l: Option<usize>) -> Result<Self::SerializeMap, E> { Err(E("map".into())) }
            fn serialize_struct(self, _n: &'static str, _l: usize) -> Result<Self::SerializeStruct, E> { Err(E("struct".into())) }
            fn serialize_struct_variant(self, _n: &'static str, _i: u32, _v: &'static str, _l: usize) -> Result<Self::SerializeStructVariant, E> { Err(E("struct_variant".into())) }
        }
    }
    #[cfg(feature = "serde")]
    pub fn ser_text<V: serde::Serialize>(v: &V) -> String {
        match v.serialize(ser::T) {
            Ok(s) => s,
            Err(e) => format!("ERR {}", e),
        }
    }
    #[cfg(feature = "serde")]
    pub fn de_biguint(words: &[u32], pad: usize) -> String {
        use serde::de::value::{Error, SeqDeserializer};
        use serde::Deserialize;
        let mut w = words.to_vec();
        w.extend(std::iter::repeat(0).take(pad));
        match num_bigint::BigUint::deserialize(SeqDeserializer::<_, Error>::new(w.into_iter())) {
            Ok(v) => format!("{:?}", v.to_u32_digits()),
            Err(e) => format!("ERR {}", e),
        }
    }
    #[cfg(feature = "serde")]
    pub fn de_bigint(sign: num_bigint::Sign, words: &[u32]) -> String {
        // through the value round trip of the (sign, magnitude) pair
        let v = num_bigint::BigInt::from_slice(sign, words);
        let text = ser_text(&v);
        format!("{}|{:?}", text, v.to_u32_digits())
    }
}
