//! Executor for the flavour binaries (`nbexec`) and for in-process comparison: runs a
//! cross-section of value-level operations on a `Case` and renders every outcome as text.
//! The same source is compiled against num-bigint with and without `std` (and with/without the
//! optional features), so the rendered text can be compared byte for byte across configurations.

use crate::Case;
use num_bigint::{BigInt, BigUint, Sign};
use num_integer::{Integer, Roots};
use num_traits::{FromPrimitive, Num, Pow, ToPrimitive};
use std::fmt::Write;

fn bu(d: &[u64]) -> BigUint {
    let mut v = Vec::with_capacity(d.len() * 2);
    for &x in d {
        v.push(x as u32);
        v.push((x >> 32) as u32);
    }
    BigUint::new(v)
}
fn bi(neg: bool, d: &[u64]) -> BigInt {
    BigInt::from_biguint(if neg { Sign::Minus } else { Sign::Plus }, bu(d))
}

fn guard<T>(f: impl FnOnce() -> T) -> Result<T, ()> {
    std::panic::catch_unwind(std::panic::AssertUnwindSafe(f)).map_err(|_| ())
}

fn put(out: &mut String, key: &str, f: impl FnOnce() -> String) {
    let _ = match guard(f) {
        Ok(s) => write!(out, "{}={};", key, s),
        Err(()) => write!(out, "{}=PANIC;", key),
    };
}

fn hx(x: &BigInt) -> String {
    // rendering through the digit export, not through the radix code under test
    let (s, d) = x.to_u64_digits();
    let mut o = String::new();
    if s == Sign::Minus {
        o.push('-');
    }
    if d.is_empty() {
        o.push('0');
    }
    for (i, w) in d.iter().rev().enumerate() {
        if i == 0 {
            let _ = write!(o, "{:x}", w);
        } else {
            let _ = write!(o, "{:016x}", w);
        }
    }
    o
}
fn hxu(x: &BigUint) -> String {
    hx(&BigInt::from(x.clone()))
}

pub fn install_quiet_hook() {
    std::panic::set_hook(Box::new(|_| {}));
}

pub fn exec(case: &Case) -> String {
    let mut o = String::new();
    match case.op.as_str() {
        "xs.arith" => {
            let (sa, a) = case.z(0);
            let (sb, b) = case.z(1);
            let (x, y) = (bi(sa, a), bi(sb, b));
            put(&mut o, "add", || hx(&(&x + &y)));
            put(&mut o, "sub", || hx(&(&x - &y)));
            put(&mut o, "mul", || hx(&(&x * &y)));
            put(&mut o, "div", || hx(&(&x / &y)));
            put(&mut o, "rem", || hx(&(&x % &y)));
            put(&mut o, "divfloor", || { let (q, r) = x.div_mod_floor(&y); format!("{},{}", hx(&q), hx(&r)) });
            put(&mut o, "gcd", || hx(&x.gcd(&y)));
            put(&mut o, "lcm", || hx(&x.lcm(&y)));
            put(&mut o, "and", || hx(&(&x & &y)));
            put(&mut o, "or", || hx(&(&x | &y)));
            put(&mut o, "xor", || hx(&(&x ^ &y)));
            put(&mut o, "usub", || hxu(&(x.magnitude() - y.magnitude())));
            put(&mut o, "cmp", || format!("{:?}", x.cmp(&y)));
        }
        "xs.radix" => {
            let (sa, a) = case.z(0);
            let r = case.u(1) as u32;
            let r2 = case.u(2) as u32;
            let x = bi(sa, a);
            put(&mut o, "str", || x.to_str_radix(r));
            put(&mut o, "parse", || {
                let s = x.to_str_radix(r);
                match BigInt::from_str_radix(&s, r) {
                    Ok(v) => hx(&v),
                    Err(_) => "ERR".into(),
                }
            });
            put(&mut o, "radix_le", || format!("{:?}", x.magnitude().to_radix_le(r2)));
            put(&mut o, "radix_be", || format!("{:?}", x.to_radix_be(r2)));
            put(&mut o, "from_radix_le", || {
                let d = x.magnitude().to_radix_le(r2);
                match BigUint::from_radix_le(&d, r2) {
                    Some(v) => hxu(&v),
                    None => "NONE".into(),
                }
            });
            put(&mut o, "dec", || format!("{}", x));
        }
        "xs.parse" => {
            let s = case.s(0);
            let r = case.u(1) as u32;
            put(&mut o, "int", || match BigInt::from_str_radix(s, r) {
                Ok(v) => hx(&v),
                Err(_) => "ERR".into(),
            });
            put(&mut o, "uint", || match BigUint::from_str_radix(s, r) {
                Ok(v) => hxu(&v),
                Err(_) => "ERR".into(),
            });
            put(&mut o, "bytes", || match BigInt::parse_bytes(s.as_bytes(), r) {
                Some(v) => hx(&v),
                None => "NONE".into(),
            });
        }
        "xs.root" => {
            let (sa, a) = case.z(0);
            let n = case.u(1) as u32;
            let x = bi(sa, a);
            put(&mut o, "sqrt", || hx(&x.sqrt()));
            put(&mut o, "cbrt", || hx(&x.cbrt()));
            put(&mut o, "nth", || hx(&x.nth_root(n)));
            put(&mut o, "usqrt", || hxu(&x.magnitude().sqrt()));
            put(&mut o, "ucbrt", || hxu(&x.magnitude().cbrt()));
            put(&mut o, "unth", || hxu(&x.magnitude().nth_root(n)));
        }
        "xs.float" => {
            let (sa, a) = case.z(0);
            let x = bi(sa, a);
            put(&mut o, "f64", || format!("{:?}", x.to_f64().map(f64::to_bits)));
            put(&mut o, "f32", || format!("{:?}", x.to_f32().map(f32::to_bits)));
            put(&mut o, "uf64", || format!("{:?}", x.magnitude().to_f64().map(f64::to_bits)));
            put(&mut o, "from", || match x.to_f64().and_then(BigInt::from_f64) {
                Some(v) => hx(&v),
                None => "NONE".into(),
            });
        }
        "xs.fromf" => {
            let bits = case.u(0) as u64;
            let f = f64::from_bits(bits);
            put(&mut o, "i", || match BigInt::from_f64(f) {
                Some(v) => hx(&v),
                None => "NONE".into(),
            });
            put(&mut o, "u", || match BigUint::from_f64(f) {
                Some(v) => hxu(&v),
                None => "NONE".into(),
            });
            put(&mut o, "f32", || match BigInt::from_f32(f32::from_bits(bits as u32)) {
                Some(v) => hx(&v),
                None => "NONE".into(),
            });
        }
        "xs.shift" => {
            let (sa, a) = case.z(0);
            let k = case.u(1) as u64;
            let x = bi(sa, a);
            put(&mut o, "shl", || hx(&(&x << (k % 4096))));
            put(&mut o, "shr", || hx(&(&x >> k)));
            put(&mut o, "pow", || hx(&Pow::pow(&x, (k % 9) as u32)));
            put(&mut o, "bits", || format!("{}", x.bits()));
            put(&mut o, "tz", || format!("{:?}", x.trailing_zeros()));
            put(&mut o, "bit", || format!("{}", x.bit(k)));
            put(&mut o, "sbytes", || format!("{:?}", x.to_signed_bytes_le()));
            put(&mut o, "not", || hx(&!&x));
        }
        "xs.fmt" => {
            let (sa, a) = case.z(0);
            let w = (case.u(1) % 48) as usize;
            let x = bi(sa, a);
            let u = x.magnitude().clone();
            put(&mut o, "d", || format!("{}|{:+}|{:>w$}|{:<w$}|{:^w$}|{:0w$}|{:+0w$}", x, x, x, x, x, x, x, w = w));
            put(&mut o, "x", || format!("{:x}|{:#x}|{:#0w$x}|{:*>w$x}|{:X}|{:#X}", x, x, x, x, x, x, w = w));
            put(&mut o, "o", || format!("{:o}|{:#o}|{:#0w$o}", x, x, x, w = w));
            put(&mut o, "b", || format!("{:b}|{:#b}|{:#0w$b}", x, x, x, w = w));
            put(&mut o, "ud", || format!("{}|{:+}|{:0w$}|{:x}|{:#X}|{:o}|{:#b}", u, u, u, u, u, u, u, w = w));
            put(&mut o, "dbg", || format!("{:?}|{:?}", x, u));
        }
        "xs.modpow" => {
            let (sa, a) = case.z(0);
            let e = case.n(1);
            let (sm, m) = case.z(2);
            let (x, y, z) = (bi(sa, a), bi(false, e), bi(sm, m));
            put(&mut o, "modpow", || hx(&x.modpow(&y, &z)));
            put(&mut o, "umodpow", || hxu(&x.magnitude().modpow(y.magnitude(), z.magnitude())));
            put(&mut o, "modinv", || match x.modinv(&z) {
                Some(v) => hx(&v),
                None => "NONE".into(),
            });
        }
        "xs.prim" => {
            let (sa, a) = case.z(0);
            let x = bi(sa, a);
            put(&mut o, "i64", || format!("{:?}", x.to_i64()));
            put(&mut o, "u64", || format!("{:?}", x.to_u64()));
            put(&mut o, "i128", || format!("{:?}", x.to_i128()));
            put(&mut o, "u128", || format!("{:?}", x.to_u128()));
            put(&mut o, "i8", || format!("{:?}", x.to_i8()));
            put(&mut o, "u32", || format!("{:?}", x.to_u32()));
            put(&mut o, "bytes", || format!("{:?}", x.to_bytes_be()));
            put(&mut o, "u32d", || format!("{:?}", x.to_u32_digits()));
        }
        "xs.bits" => {
            let (sa, a) = case.z(0);
            let i = case.u(1) as u64;
            let x = bi(sa, a);
            put(&mut o, "set1", || { let mut t = x.clone(); t.set_bit(i, true); hx(&t) });
            put(&mut o, "set0", || { let mut t = x.clone(); t.set_bit(i, false); hx(&t) });
            put(&mut o, "uset1", || { let mut t = x.magnitude().clone(); t.set_bit(i, true); hxu(&t) });
            put(&mut o, "uset0", || { let mut t = x.magnitude().clone(); t.set_bit(i, false); hxu(&t) });
            put(&mut o, "bit", || format!("{}", x.bit(i)));
            put(&mut o, "ones", || format!("{},{}", x.magnitude().trailing_ones(), x.magnitude().count_ones()));
            put(&mut o, "neg", || hx(&-&x));
            put(&mut o, "inc", || { let mut t = x.clone(); t.inc(); hx(&t) });
            put(&mut o, "dec", || { let mut t = x.clone(); t.dec(); hx(&t) });
        }
        "xs.bytes" => {
            let b = case.b(0);
            put(&mut o, "sle", || hx(&BigInt::from_signed_bytes_le(b)));
            put(&mut o, "sbe", || hx(&BigInt::from_signed_bytes_be(b)));
            put(&mut o, "ule", || hxu(&BigUint::from_bytes_le(b)));
            put(&mut o, "ube", || hxu(&BigUint::from_bytes_be(b)));
            put(&mut o, "rt", || format!("{:?}", BigInt::from_signed_bytes_le(b).to_signed_bytes_be()));
            put(&mut o, "radix", || match BigUint::from_radix_be(b, 256) { Some(v) => hxu(&v), None => "NONE".into() });
        }
        "xs.euclid" => {
            use num_traits::Euclid;
            let (sa, a) = case.z(0);
            let (sb, b) = case.z(1);
            let (x, y) = (bi(sa, a), bi(sb, b));
            put(&mut o, "euclid", || { let (q, r) = x.div_rem_euclid(&y); format!("{},{}", hx(&q), hx(&r)) });
            put(&mut o, "ceil", || hx(&Integer::div_ceil(&x, &y)));
            put(&mut o, "egcd", || { let e = x.extended_gcd(&y); format!("{},{},{}", hx(&e.gcd), hx(&e.x), hx(&e.y)) });
            put(&mut o, "next", || hx(&x.next_multiple_of(&y)));
            put(&mut o, "prev", || hx(&x.prev_multiple_of(&y)));
            put(&mut o, "ismul", || format!("{}", x.is_multiple_of(&y)));
            put(&mut o, "ucheckedsub", || format!("{:?}", num_traits::CheckedSub::checked_sub(x.magnitude(), y.magnitude()).map(|v| hxu(&v))));
        }
        other => {
            let _ = write!(o, "unsupported {}", other);
        }
    }
    o
}

/// extract `key=value;` from an exec outcome
pub fn field<'a>(outcome: &'a str, key: &str) -> Option<&'a str> {
    for part in outcome.split(';') {
        if let Some(rest) = part.strip_prefix(key) {
            if let Some(v) = rest.strip_prefix('=') {
                return Some(v);
            }
        }
    }
    None
}
