//! `Case`: the one dynamically typed value that every generator produces, every oracle consumes,
//! every replay file stores and the fuzz target decodes into.
//!
//! Text form (one line):  `op arg arg ...` where
//!   `n[d0,d1,..]`   natural number, little-endian u64 digits in hex (may carry redundant high zeros)
//!   `z+[..]`/`z-[..]` signed integer: sign request and magnitude digits
//!   `i<dec>`        i128 scalar        `u<dec>`  u128 scalar
//!   `b<hex>`        byte string (b. for empty)
//!   `s<hex>`        UTF-8 text, hex encoded (s. for empty)
//!   `(arg arg ..)`  list
//! Lines starting with `#` are comments.

pub mod exec;

use std::fmt::Write;

#[derive(Clone, Debug, PartialEq, Eq, Hash)]
pub enum Arg {
    N(Vec<u64>),
    Z(bool, Vec<u64>),
    I(i128),
    U(u128),
    B(Vec<u8>),
    S(String),
    L(Vec<Arg>),
}

#[derive(Clone, Debug, PartialEq, Eq, Hash)]
pub struct Case {
    pub op: String,
    pub args: Vec<Arg>,
}

impl Case {
    pub fn new(op: &str, args: Vec<Arg>) -> Case {
        Case {
            op: op.to_string(),
            args,
        }
    }
    pub fn to_text(&self) -> String {
        let mut s = String::new();
        s.push_str(&self.op);
        for a in &self.args {
            s.push(' ');
            a.write(&mut s);
        }
        s
    }
    pub fn from_text(text: &str) -> Result<Case, String> {
        let line = text
            .lines()
            .map(|l| l.trim())
            .find(|l| !l.is_empty() && !l.starts_with('#'))
            .ok_or("empty case text")?;
        let mut p = Parser {
            s: line.as_bytes(),
            i: 0,
        };
        let op = p.word()?;
        let mut args = Vec::new();
        loop {
            p.skip_ws();
            if p.i >= p.s.len() {
                break;
            }
            args.push(p.arg()?);
        }
        Ok(Case { op, args })
    }
    pub fn hash64(&self) -> u64 {
        // FNV-1a over the text form: stable across runs and processes.
        let t = self.to_text();
        let mut h: u64 = 0xcbf29ce484222325;
        for b in t.bytes() {
            h ^= b as u64;
            h = h.wrapping_mul(0x100000001b3);
        }
        h
    }
    // typed accessors (panic on shape mismatch: a harness bug, never a verdict)
    pub fn n(&self, i: usize) -> &Vec<u64> {
        match &self.args[i] {
            Arg::N(v) => v,
            a => panic!("case arg {} is not N: {:?}", i, a),
        }
    }
    pub fn z(&self, i: usize) -> (bool, &Vec<u64>) {
        match &self.args[i] {
            Arg::Z(s, v) => (*s, v),
            a => panic!("case arg {} is not Z: {:?}", i, a),
        }
    }
    pub fn i(&self, i: usize) -> i128 {
        match &self.args[i] {
            Arg::I(v) => *v,
            a => panic!("case arg {} is not I: {:?}", i, a),
        }
    }
    pub fn u(&self, i: usize) -> u128 {
        match &self.args[i] {
            Arg::U(v) => *v,
            a => panic!("case arg {} is not U: {:?}", i, a),
        }
    }
    pub fn b(&self, i: usize) -> &Vec<u8> {
        match &self.args[i] {
            Arg::B(v) => v,
            a => panic!("case arg {} is not B: {:?}", i, a),
        }
    }
    pub fn s(&self, i: usize) -> &str {
        match &self.args[i] {
            Arg::S(v) => v,
            a => panic!("case arg {} is not S: {:?}", i, a),
        }
    }
    pub fn l(&self, i: usize) -> &Vec<Arg> {
        match &self.args[i] {
            Arg::L(v) => v,
            a => panic!("case arg {} is not L: {:?}", i, a),
        }
    }
}

impl Arg {
    pub fn write(&self, s: &mut String) {
        match self {
            Arg::N(v) => {
                s.push('n');
                write_digits(s, v);
            }
            Arg::Z(neg, v) => {
                s.push('z');
                s.push(if *neg { '-' } else { '+' });
                write_digits(s, v);
            }
            Arg::I(v) => {
                let _ = write!(s, "i{}", v);
            }
            Arg::U(v) => {
                let _ = write!(s, "u{}", v);
            }
            Arg::B(v) => {
                s.push('b');
                write_hex(s, v);
            }
            Arg::S(v) => {
                s.push('s');
                write_hex(s, v.as_bytes());
            }
            Arg::L(v) => {
                s.push('(');
                for (i, a) in v.iter().enumerate() {
                    if i > 0 {
                        s.push(' ');
                    }
                    a.write(s);
                }
                s.push(')');
            }
        }
    }
    pub fn as_n(&self) -> &Vec<u64> {
        match self {
            Arg::N(v) => v,
            a => panic!("arg is not N: {:?}", a),
        }
    }
    pub fn as_z(&self) -> (bool, &Vec<u64>) {
        match self {
            Arg::Z(s, v) => (*s, v),
            a => panic!("arg is not Z: {:?}", a),
        }
    }
    pub fn as_i(&self) -> i128 {
        match self {
            Arg::I(v) => *v,
            a => panic!("arg is not I: {:?}", a),
        }
    }
    pub fn as_u(&self) -> u128 {
        match self {
            Arg::U(v) => *v,
            a => panic!("arg is not U: {:?}", a),
        }
    }
    pub fn as_s(&self) -> &str {
        match self {
            Arg::S(v) => v,
            a => panic!("arg is not S: {:?}", a),
        }
    }
    pub fn as_b(&self) -> &Vec<u8> {
        match self {
            Arg::B(v) => v,
            a => panic!("arg is not B: {:?}", a),
        }
    }
    pub fn as_l(&self) -> &Vec<Arg> {
        match self {
            Arg::L(v) => v,
            a => panic!("arg is not L: {:?}", a),
        }
    }
}

fn write_digits(s: &mut String, v: &[u64]) {
    s.push('[');
    for (i, d) in v.iter().enumerate() {
        if i > 0 {
            s.push(',');
        }
        let _ = write!(s, "{:x}", d);
    }
    s.push(']');
}

fn write_hex(s: &mut String, v: &[u8]) {
    if v.is_empty() {
        s.push('.');
    }
    for b in v {
        let _ = write!(s, "{:02x}", b);
    }
}

struct Parser<'a> {
    s: &'a [u8],
    i: usize,
}

impl<'a> Parser<'a> {
    fn skip_ws(&mut self) {
        while self.i < self.s.len() && self.s[self.i] == b' ' {
            self.i += 1;
        }
    }
    fn word(&mut self) -> Result<String, String> {
        self.skip_ws();
        let st = self.i;
        while self.i < self.s.len() && self.s[self.i] != b' ' {
            self.i += 1;
        }
        if st == self.i {
            return Err("missing op".into());
        }
        Ok(String::from_utf8_lossy(&self.s[st..self.i]).into_owned())
    }
    fn peek(&self) -> Option<u8> {
        self.s.get(self.i).copied()
    }
    fn take_while(&mut self, f: impl Fn(u8) -> bool) -> &'a [u8] {
        let st = self.i;
        while self.i < self.s.len() && f(self.s[self.i]) {
            self.i += 1;
        }
        &self.s[st..self.i]
    }
    fn digits(&mut self) -> Result<Vec<u64>, String> {
        if self.peek() != Some(b'[') {
            return Err(format!("expected [ at {}", self.i));
        }
        self.i += 1;
        let mut v = Vec::new();
        loop {
            match self.peek() {
                Some(b']') => {
                    self.i += 1;
                    return Ok(v);
                }
                Some(b',') => {
                    self.i += 1;
                }
                Some(_) => {
                    let t = self.take_while(|c| c.is_ascii_hexdigit());
                    if t.is_empty() {
                        return Err(format!("bad digit at {}", self.i));
                    }
                    let t = std::str::from_utf8(t).unwrap();
                    v.push(u64::from_str_radix(t, 16).map_err(|e| e.to_string())?);
                }
                None => return Err("unterminated [".into()),
            }
        }
    }
    fn hex(&mut self) -> Result<Vec<u8>, String> {
        if self.peek() == Some(b'.') {
            self.i += 1;
            return Ok(vec![]);
        }
        let t = self.take_while(|c| c.is_ascii_hexdigit());
        if t.len() % 2 != 0 {
            return Err("odd hex".into());
        }
        let mut v = Vec::with_capacity(t.len() / 2);
        for ch in t.chunks(2) {
            let t = std::str::from_utf8(ch).unwrap();
            v.push(u8::from_str_radix(t, 16).map_err(|e| e.to_string())?);
        }
        Ok(v)
    }
    fn arg(&mut self) -> Result<Arg, String> {
        self.skip_ws();
        let c = self.peek().ok_or("missing arg")?;
        self.i += 1;
        match c {
            b'n' => Ok(Arg::N(self.digits()?)),
            b'z' => {
                let sg = self.peek().ok_or("missing sign")?;
                self.i += 1;
                let neg = match sg {
                    b'-' => true,
                    b'+' => false,
                    _ => return Err("bad sign".into()),
                };
                Ok(Arg::Z(neg, self.digits()?))
            }
            b'i' => {
                let t = self.take_while(|c| c == b'-' || c.is_ascii_digit());
                let t = std::str::from_utf8(t).unwrap();
                Ok(Arg::I(t.parse::<i128>().map_err(|e| e.to_string())?))
            }
            b'u' => {
                let t = self.take_while(|c| c.is_ascii_digit());
                let t = std::str::from_utf8(t).unwrap();
                Ok(Arg::U(t.parse::<u128>().map_err(|e| e.to_string())?))
            }
            b'b' => Ok(Arg::B(self.hex()?)),
            b's' => {
                let b = self.hex()?;
                Ok(Arg::S(String::from_utf8(b).map_err(|e| e.to_string())?))
            }
            b'(' => {
                let mut v = Vec::new();
                loop {
                    self.skip_ws();
                    match self.peek() {
                        Some(b')') => {
                            self.i += 1;
                            return Ok(Arg::L(v));
                        }
                        Some(_) => v.push(self.arg()?),
                        None => return Err("unterminated (".into()),
                    }
                }
            }
            c => Err(format!("unknown arg tag {:?} at {}", c as char, self.i - 1)),
        }
    }
}

#[cfg(test)]
mod tests {
    use super::*;
    #[test]
    fn roundtrip() {
        let c = Case::new(
            "x.y",
            vec![
                Arg::N(vec![1, 0, u64::MAX]),
                Arg::Z(true, vec![]),
                Arg::I(-5),
                Arg::U(u128::MAX),
                Arg::B(vec![]),
                Arg::B(vec![0, 255]),
                Arg::S("a b".into()),
                Arg::L(vec![Arg::L(vec![]), Arg::I(3)]),
            ],
        );
        let t = c.to_text();
        assert_eq!(Case::from_text(&t).unwrap(), c);
    }
}
