//! Guard-page allocator for C15.
//!
//! While a thread-local mode is set, heap allocations of that thread are served from a reserved
//! PROT_NONE region: the needed pages are made read-write and the block is placed flush against
//! the following inaccessible page (mode END) or directly after the preceding one (mode START).
//! Any access outside the block - including by the library's inline-asm loops, which sanitizers
//! cannot see - faults (SIGSEGV) and the driver attributes the crash to the journalled case.
//! Freed blocks go back to PROT_NONE, so use-after-free faults too.
use std::alloc::{GlobalAlloc, Layout, System};
use std::cell::Cell;
use std::sync::atomic::{AtomicUsize, Ordering};

pub const OFF: u8 = 0;
pub const END: u8 = 1;
pub const START: u8 = 2;

const PAGE: usize = 4096;
const REGION: usize = 1 << 42; // 4 TiB of address space, never committed (2^29 guarded allocations per process)
const MAX_GUARDED: usize = 1 << 20;

thread_local! {
    static MODE: Cell<u8> = const { Cell::new(OFF) };
}

static BASE: AtomicUsize = AtomicUsize::new(0);
static NEXT: AtomicUsize = AtomicUsize::new(0);
pub static GUARDED_ALLOCS: AtomicUsize = AtomicUsize::new(0);
/// allocations requested inside a guard scope that had to fall back to the system allocator
pub static FALLBACKS: AtomicUsize = AtomicUsize::new(0);

pub struct GuardAlloc;

fn region_base() -> usize {
    let b = BASE.load(Ordering::Acquire);
    if b != 0 {
        return b;
    }
    unsafe {
        let p = libc::mmap(
            std::ptr::null_mut(),
            REGION,
            libc::PROT_NONE,
            libc::MAP_PRIVATE | libc::MAP_ANONYMOUS | libc::MAP_NORESERVE,
            -1,
            0,
        );
        if p == libc::MAP_FAILED {
            return 0;
        }
        let p = p as usize;
        match BASE.compare_exchange(0, p, Ordering::AcqRel, Ordering::Acquire) {
            Ok(_) => p,
            Err(existing) => {
                libc::munmap(p as *mut libc::c_void, REGION);
                existing
            }
        }
    }
}

unsafe impl GlobalAlloc for GuardAlloc {
    unsafe fn alloc(&self, layout: Layout) -> *mut u8 {
        let mode = MODE.try_with(|m| m.get()).unwrap_or(OFF);
        if mode == OFF || layout.size() == 0 || layout.size() > MAX_GUARDED || layout.align() > PAGE {
            return System.alloc(layout);
        }
        let base = region_base();
        if base == 0 {
            FALLBACKS.fetch_add(1, Ordering::Relaxed);
            return System.alloc(layout);
        }
        let data_pages = (layout.size() + PAGE - 1) / PAGE;
        let span = (data_pages + 1) * PAGE; // data pages + one guard page (the page before is the previous block's guard)
        let off = NEXT.fetch_add(span, Ordering::Relaxed);
        if off + span + PAGE > REGION {
            // address space exhausted: fall back; C15 turns a non-zero fallback count into an inconclusive run
            FALLBACKS.fetch_add(1, Ordering::Relaxed);
            return System.alloc(layout);
        }
        let start = base + PAGE + off; // first data page; base+off.. is a guard page
        if libc::mprotect(start as *mut libc::c_void, data_pages * PAGE, libc::PROT_READ | libc::PROT_WRITE) != 0 {
            FALLBACKS.fetch_add(1, Ordering::Relaxed);
            return System.alloc(layout);
        }
        GUARDED_ALLOCS.fetch_add(1, Ordering::Relaxed);
        if mode == END {
            let end = start + data_pages * PAGE;
            let p = (end - layout.size()) & !(layout.align() - 1);
            p as *mut u8
        } else {
            start as *mut u8
        }
    }
    unsafe fn dealloc(&self, ptr: *mut u8, layout: Layout) {
        let base = BASE.load(Ordering::Acquire);
        let p = ptr as usize;
        if base != 0 && p >= base && p < base + REGION {
            let first = p & !(PAGE - 1);
            let last = (p + layout.size() + PAGE - 1) & !(PAGE - 1);
            libc::mprotect(first as *mut libc::c_void, last - first, libc::PROT_NONE);
            libc::madvise(first as *mut libc::c_void, last - first, libc::MADV_DONTNEED);
        } else {
            System.dealloc(ptr, layout)
        }
    }
}

/// RAII scope: allocations made by this thread while the scope lives are guarded
pub struct Scope(u8);
impl Scope {
    pub fn new(mode: u8) -> Scope {
        let prev = MODE.with(|m| m.replace(mode));
        Scope(prev)
    }
}
impl Drop for Scope {
    fn drop(&mut self) {
        let prev = self.0;
        let _ = MODE.try_with(|m| m.set(prev));
    }
}
