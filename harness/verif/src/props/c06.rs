//! C06 — text and radix conversions are exact, canonical and mutually inverse.
use super::fmt_table::TABLE;
use crate::engine::*;
use crate::gen;
use crate::lib_util::*;
use crate::refint::{oracle_error, Nat, RefInt};
use nbcase::{Arg, Case};
use num_bigint::verif_probe::Probe;
use num_bigint::{BigInt, BigUint, Sign};
use num_traits::Num;
use proptest::collection::vec;
use proptest::prelude::*;
use proptest::sample::select;
use std::str::FromStr;

pub struct C06;

/// little-endian digits of n in `radix`, by division with the largest power of the radix that
/// fits a u32 (independent of the library's u64 chunk tables); zero -> empty
fn ref_digits_le(n: &Nat, radix: u32) -> Vec<u8> {
    let mut k = 1u32;
    let mut p = radix as u64;
    while p * (radix as u64) <= u32::MAX as u64 {
        p *= radix as u64;
        k += 1;
    }
    let mut out = vec![];
    let mut x = n.clone();
    while !x.is_zero() {
        let (q, mut r) = x.divrem_small(p as u32);
        let last = q.is_zero();
        for _ in 0..k {
            if last && r == 0 {
                break;
            }
            out.push((r % radix) as u8);
            r /= radix;
        }
        x = q;
    }
    out
}

fn ref_text(r: &RefInt, radix: u32, upper: bool) -> String {
    let d = ref_digits_le(&r.mag, radix);
    let mut s = String::new();
    if r.neg {
        s.push('-');
    }
    if d.is_empty() {
        s.push('0');
    }
    for &x in d.iter().rev() {
        let c = std::char::from_digit(x as u32, radix).unwrap();
        s.push(if upper { c.to_ascii_uppercase() } else { c });
    }
    s
}

fn check_alphabet(s: &str, radix: u32, what: &str) -> Result<(), String> {
    for (i, b) in s.bytes().enumerate() {
        let ok = (b == b'-' && i == 0) || (b as char).to_digit(radix).is_some() && !(b as char).is_ascii_uppercase();
        if !ok {
            return Err(format!("{}: output byte 0x{:02x} at {} is outside the lower-case radix-{} alphabet", what, b, i, radix));
        }
    }
    Ok(())
}

fn tostr(neg: bool, a: &[u64], radix: u32) -> Verdict {
    let x = bi(neg, a);
    let u = bu(a);
    let r = ri(neg, a);
    if !(2..=36).contains(&radix) {
        must_panic("BigInt::to_str_radix with a bad radix", || x.to_str_radix(radix))?;
        must_panic("BigUint::to_str_radix with a bad radix", || u.to_str_radix(radix))?;
        must_panic("BigInt::from_str_radix with a bad radix", || BigInt::from_str_radix("1", radix))?;
        must_panic("BigUint::from_str_radix with a bad radix", || BigUint::from_str_radix("1", radix))?;
        return Ok(Info::new(true).class("bad_text_radix"));
    }
    let want = ref_text(&r, radix, false);
    let got = must_return("BigInt::to_str_radix", || x.to_str_radix(radix))?;
    check_alphabet(&got, radix, "BigInt::to_str_radix")?;
    if got != want {
        return Err(format!("BigInt::to_str_radix({}): got {} want {}", radix, trunc(&got, 200), trunc(&want, 200)));
    }
    let wantu = ref_text(&r.abs(), radix, false);
    let gotu = must_return("BigUint::to_str_radix", || u.to_str_radix(radix))?;
    if gotu != wantu {
        return Err(format!("BigUint::to_str_radix({}): got {} want {}", radix, trunc(&gotu, 200), trunc(&wantu, 200)));
    }
    // parsing the emitted text returns the value
    ctx(must_return("from_str_radix", || BigInt::from_str_radix(&got, radix)).and_then(|v| v.map_err(|e| format!("rejected its own output: {:?}", e))).and_then(|v| eq_bi(&v, &r)), "BigInt::from_str_radix(to_str_radix(x))")?;
    ctx(must_return("from_str_radix", || BigUint::from_str_radix(&gotu, radix)).and_then(|v| v.map_err(|e| format!("rejected its own output: {:?}", e))).and_then(|v| eq_bu(&v, &r.mag)), "BigUint::from_str_radix(to_str_radix(x))")?;
    // upper-case input is accepted too
    let up = got.to_ascii_uppercase();
    ctx(must_return("from_str_radix", || BigInt::from_str_radix(&up, radix)).and_then(|v| v.map_err(|e| format!("rejected upper-case digits: {:?}", e))).and_then(|v| eq_bi(&v, &r)), "BigInt::from_str_radix(upper-case)")?;
    if radix == 10 {
        if x.to_string() != want {
            return Err(format!("Display: got {} want {}", trunc(&x.to_string(), 200), trunc(&want, 200)));
        }
        ctx(must_return("FromStr", || BigInt::from_str(&want)).and_then(|v| v.map_err(|e| format!("{:?}", e))).and_then(|v| eq_bi(&v, &r)), "BigInt::from_str(Display)")?;
    }
    let nd = r.mag.to_u64_digits().len();
    Ok(Info::new(nd >= 2)
        .class("to_str_radix")
        .class_if(radix.is_power_of_two() && 64 % radix.trailing_zeros() == 0, "aligned_pow2_radix")
        .class_if(radix.is_power_of_two() && 64 % radix.trailing_zeros() != 0, "nonaligned_pow2_radix")
        .class_if(!radix.is_power_of_two(), "chunked_radix")
        .class_if(nd >= 64 && !radix.is_power_of_two(), "big_base_path_size")
        .class_if(want.matches('0').count() > want.len() / 2 && want.len() > 20, "long_zero_runs_in_output"))
}

fn toradix(neg: bool, a: &[u64], radix: u32) -> Verdict {
    let x = bi(neg, a);
    let u = bu(a);
    let r = ri(neg, a);
    if !(2..=256).contains(&radix) {
        must_panic("to_radix_le with a bad radix", || u.to_radix_le(radix))?;
        must_panic("to_radix_be with a bad radix", || u.to_radix_be(radix))?;
        must_panic("BigInt::to_radix_le with a bad radix", || x.to_radix_le(radix))?;
        must_panic("from_radix_le with a bad radix", || BigUint::from_radix_le(&[1], radix))?;
        must_panic("from_radix_be with a bad radix", || BigUint::from_radix_be(&[1], radix))?;
        return Ok(Info::new(true).class("bad_digit_radix"));
    }
    let mut want = ref_digits_le(&r.mag, radix);
    if want.is_empty() {
        want.push(0);
    }
    let mut want_be = want.clone();
    want_be.reverse();
    let got = must_return("to_radix_le", || u.to_radix_le(radix))?;
    if got != want {
        return Err(format!("BigUint::to_radix_le({}): got {:?} want {:?}", radix, trunc(&format!("{:?}", got), 200), trunc(&format!("{:?}", want), 200)));
    }
    let got = must_return("to_radix_be", || u.to_radix_be(radix))?;
    if got != want_be {
        return Err(format!("BigUint::to_radix_be({}): got {} want {}", radix, trunc(&format!("{:?}", got), 200), trunc(&format!("{:?}", want_be), 200)));
    }
    let ws = match r.signum() {
        0 => Sign::NoSign,
        1 => Sign::Plus,
        _ => Sign::Minus,
    };
    let (s, got) = must_return("BigInt::to_radix_le", || x.to_radix_le(radix))?;
    if s != ws || got != want {
        return Err(format!("BigInt::to_radix_le({}): got ({:?}, {})", radix, s, trunc(&format!("{:?}", got), 200)));
    }
    let (s, got) = must_return("BigInt::to_radix_be", || x.to_radix_be(radix))?;
    if s != ws || got != want_be {
        return Err(format!("BigInt::to_radix_be({}): got ({:?}, {})", radix, s, trunc(&format!("{:?}", got), 200)));
    }
    // round trips
    match must_return("from_radix_le", || BigUint::from_radix_le(&want, radix))? {
        Some(v) => ctx(eq_bu(&v, &r.mag), "from_radix_le(to_radix_le(x))")?,
        None => return Err("from_radix_le rejected to_radix_le's output".into()),
    }
    match must_return("from_radix_be", || BigInt::from_radix_be(if r.neg { Sign::Minus } else { Sign::Plus }, &want_be, radix))? {
        Some(v) => ctx(eq_bi(&v, &r), "BigInt::from_radix_be(to_radix_be(x))")?,
        None => return Err("BigInt::from_radix_be rejected to_radix_be's output".into()),
    }
    let nd = r.mag.to_u64_digits().len();
    Ok(Info::new(nd >= 2)
        .class("to_radix_digits")
        .class_if(radix > 36, "radix_above_36")
        .class_if(radix == 256, "radix_256")
        .class_if(radix.is_power_of_two() && 64 % radix.trailing_zeros() != 0, "nonaligned_pow2_radix")
        .class_if(nd >= 64 && !radix.is_power_of_two(), "big_base_path_size"))
}

/// independent recogniser of the documented grammar; Some((negative, digit values)) if well-formed
fn recognise(bytes: &[u8], radix: u32, allow_minus: bool) -> Option<(bool, Vec<u32>)> {
    let mut i = 0;
    let mut neg = false;
    if let Some(&b) = bytes.first() {
        if b == b'+' {
            i = 1;
        } else if b == b'-' && allow_minus {
            neg = true;
            i = 1;
        }
    }
    let rest = &bytes[i..];
    // "-+5": the library documents one optional sign; a '+' after '-' is a second sign
    if rest.is_empty() {
        return None;
    }
    let mut digits = vec![];
    for (k, &b) in rest.iter().enumerate() {
        if b == b'_' {
            if k == 0 {
                return None;
            }
            continue;
        }
        if b >= 0x80 {
            return None;
        }
        match (b as char).to_digit(36) {
            Some(d) if d < radix => digits.push(d),
            _ => return None,
        }
    }
    Some((neg, digits))
}

fn parse_case(bytes: &[u8], radix: u32) -> Verdict {
    let as_str = std::str::from_utf8(bytes).ok();
    let rec_i = as_str.and_then(|_| recognise(bytes, radix, true));
    let rec_u = as_str.and_then(|_| recognise(bytes, radix, false));
    let val = |rec: &Option<(bool, Vec<u32>)>| rec.as_ref().map(|(neg, d)| RefInt::new(*neg, Nat::from_radix_be(d, radix)));
    let (wi, wu) = (val(&rec_i), val(&rec_u));
    // parse_bytes: any byte string
    let gi = must_return("BigInt::parse_bytes", || BigInt::parse_bytes(bytes, radix))?;
    match (&wi, &gi) {
        (None, None) => {}
        (Some(w), Some(g)) => ctx(eq_bi(g, w), "BigInt::parse_bytes")?,
        (w, g) => return Err(format!("BigInt::parse_bytes({:?}, {}): got {:?} but the input is {}", String::from_utf8_lossy(bytes), radix, g, if w.is_some() { "well-formed" } else { "malformed" })),
    }
    let gu = must_return("BigUint::parse_bytes", || BigUint::parse_bytes(bytes, radix))?;
    match (&wu, &gu) {
        (None, None) => {}
        (Some(w), Some(g)) => ctx(eq_bu(g, &w.mag), "BigUint::parse_bytes")?,
        (w, g) => return Err(format!("BigUint::parse_bytes({:?}, {}): got {:?} but the input is {}", String::from_utf8_lossy(bytes), radix, g, if w.is_some() { "well-formed" } else { "malformed" })),
    }
    if let Some(s) = as_str {
        let gi = must_return("BigInt::from_str_radix", || BigInt::from_str_radix(s, radix))?.ok();
        match (&wi, &gi) {
            (None, None) => {}
            (Some(w), Some(g)) => ctx(eq_bi(g, w), "BigInt::from_str_radix")?,
            (w, g) => return Err(format!("BigInt::from_str_radix({:?}, {}): got {:?} but the input is {}", s, radix, g, if w.is_some() { "well-formed" } else { "malformed" })),
        }
        let gu = must_return("BigUint::from_str_radix", || BigUint::from_str_radix(s, radix))?.ok();
        match (&wu, &gu) {
            (None, None) => {}
            (Some(w), Some(g)) => ctx(eq_bu(g, &w.mag), "BigUint::from_str_radix")?,
            (w, g) => return Err(format!("BigUint::from_str_radix({:?}, {}): got {:?} but the input is {}", s, radix, g, if w.is_some() { "well-formed" } else { "malformed" })),
        }
        if radix == 10 {
            let gi = must_return("BigInt::from_str", || BigInt::from_str(s))?.ok();
            let gu = must_return("BigUint::from_str", || BigUint::from_str(s))?.ok();
            if gi.is_some() != wi.is_some() || gu.is_some() != wu.is_some() {
                return Err(format!("FromStr({:?}): BigInt {:?} / BigUint {:?} but well-formedness is {} / {}", s, gi, gu, wi.is_some(), wu.is_some()));
            }
            if let (Some(g), Some(w)) = (&gi, &wi) {
                ctx(eq_bi(g, w), "BigInt::from_str")?;
            }
            if let (Some(g), Some(w)) = (&gu, &wu) {
                ctx(eq_bu(g, &w.mag), "BigUint::from_str")?;
            }
        }
    }
    let ndig = rec_i.as_ref().map_or(0, |(_, d)| d.len());
    let has_us = bytes.contains(&b'_');
    let has_sign = matches!(bytes.first(), Some(b'+') | Some(b'-'));
    let lead0 = rec_i.as_ref().map_or(false, |(_, d)| d.len() > 1 && d[0] == 0);
    Ok(Info::new(has_us || has_sign || lead0 || ndig >= 20)
        .class("parse")
        .class_if(wi.is_some(), "well_formed_for_bigint")
        .class_if(wi.is_some() && wu.is_none(), "minus_sign_rejected_by_biguint_only")
        .class_if(wi.is_none(), "malformed")
        .class_if(as_str.is_none(), "invalid_utf8")
        .class_if(bytes.is_empty(), "empty")
        .class_if(has_us && wi.is_some(), "underscores_accepted")
        .class_if(lead0, "leading_zeros")
        .class_if(ndig >= 40, "long_input"))
}

fn fromradix(digits: &[u8], radix: u32, sg: i128) -> Verdict {
    if !(2..=256).contains(&radix) {
        return Err("harness: radix outside the generated domain".into());
    }
    let ok = radix == 256 || digits.iter().all(|d| (*d as u32) < radix);
    let s = match sg {
        0 => Sign::NoSign,
        x if x > 0 => Sign::Plus,
        _ => Sign::Minus,
    };
    let d32: Vec<u32> = digits.iter().map(|d| *d as u32).collect();
    let be = Nat::from_radix_be(&d32, radix);
    let mut rev = d32.clone();
    rev.reverse();
    let le = Nat::from_radix_be(&rev, radix);
    let gbe = must_return("from_radix_be", || BigUint::from_radix_be(digits, radix))?;
    let gle = must_return("from_radix_le", || BigUint::from_radix_le(digits, radix))?;
    let ibe = must_return("BigInt::from_radix_be", || BigInt::from_radix_be(s, digits, radix))?;
    let ile = must_return("BigInt::from_radix_le", || BigInt::from_radix_le(s, digits, radix))?;
    if ok {
        match gbe {
            Some(v) => ctx(eq_bu(&v, &be), "BigUint::from_radix_be")?,
            None => return Err("BigUint::from_radix_be returned None for an in-range digit slice".into()),
        }
        match gle {
            Some(v) => ctx(eq_bu(&v, &le), "BigUint::from_radix_le")?,
            None => return Err("BigUint::from_radix_le returned None for an in-range digit slice".into()),
        }
        let w = |n: &Nat| if s == Sign::NoSign { RefInt::zero() } else { RefInt::new(s == Sign::Minus, n.clone()) };
        match ibe {
            Some(v) => ctx(eq_bi(&v, &w(&be)), "BigInt::from_radix_be")?,
            None => return Err("BigInt::from_radix_be returned None for an in-range digit slice".into()),
        }
        match ile {
            Some(v) => ctx(eq_bi(&v, &w(&le)), "BigInt::from_radix_le")?,
            None => return Err("BigInt::from_radix_le returned None for an in-range digit slice".into()),
        }
    } else if gbe.is_some() || gle.is_some() || ibe.is_some() || ile.is_some() {
        return Err(format!("from_radix_* accepted a digit >= radix {}", radix));
    }
    Ok(Info::new(digits.len() >= 12)
        .class("from_radix_digits")
        .class_if(!ok, "out_of_range_digit")
        .class_if(digits.is_empty(), "empty_slice")
        .class_if(digits.first() == Some(&0) && digits.len() > 1, "leading_zero_digits")
        .class_if(radix.is_power_of_two() && 64 % radix.trailing_zeros() != 0, "nonaligned_pow2_radix"))
}

/// independent implementation of the standard integer padding rules
fn pad(neg: bool, plus: bool, alt: bool, prefix: &str, digits: &str, width: Option<usize>, zero: bool, fill: char, align: u8) -> String {
    let sign = if neg {
        "-"
    } else if plus {
        "+"
    } else {
        ""
    };
    let pre = if alt { prefix } else { "" };
    let body_len = sign.len() + pre.len() + digits.chars().count();
    let body = format!("{}{}{}", sign, pre, digits);
    match width {
        Some(w) if w > body_len => {
            let p = w - body_len;
            if zero {
                format!("{}{}{}{}", sign, pre, "0".repeat(p), digits)
            } else {
                let f = |n: usize| fill.to_string().repeat(n);
                match align {
                    1 => format!("{}{}", body, f(p)),
                    2 => format!("{}{}{}", f(p / 2), body, f(p - p / 2)),
                    _ => format!("{}{}", f(p), body),
                }
            }
        }
        _ => body,
    }
}

fn fmt_case(neg: bool, a: &[u64], idx: usize, w: usize) -> Verdict {
    let e = &TABLE[idx % TABLE.len()];
    let x = bi(neg, a);
    let u = bu(a);
    let r = ri(neg, a);
    let (radix, prefix, upper) = match e.base {
        0 => (10, "", false),
        1 => (2, "0b", false),
        2 => (8, "0o", false),
        3 => (16, "0x", false),
        _ => (16, "0x", true),
    };
    let digits = ref_text(&r.abs(), radix, upper);
    let width = if e.has_width { Some(w) } else { None };
    let want_i = pad(r.neg, e.plus, e.alt, prefix, &digits, width, e.zero, e.fill, e.align);
    let want_u = pad(false, e.plus, e.alt, prefix, &digits, width, e.zero, e.fill, e.align);
    // the padding model itself is checked against the standard library on native integers
    if let Some(v) = r.to_i128() {
        if e.base == 0 {
            let std_s = (e.i)(v, w);
            if std_s != want_i {
                oracle_error(&format!("padding model disagrees with std for {} spec {} width {}: {} vs {}", v, e.spec, w, std_s, want_i));
            }
        } else if v >= 0 {
            let std_s = (e.u)(v as u128, w);
            if std_s != want_i {
                oracle_error(&format!("padding model disagrees with std for {} spec {} width {}: {} vs {}", v, e.spec, w, std_s, want_i));
            }
        }
    }
    let got = must_return("format BigInt", || (e.bi)(&x, w))?;
    if got != want_i {
        return Err(format!("format!(\"{}\", BigInt) with width {}: got {:?} want {:?}", e.spec, w, trunc(&got, 200), trunc(&want_i, 200)));
    }
    let got = must_return("format BigUint", || (e.bu)(&u, w))?;
    if got != want_u {
        return Err(format!("format!(\"{}\", BigUint) with width {}: got {:?} want {:?}", e.spec, w, trunc(&got, 200), trunc(&want_u, 200)));
    }
    Ok(Info::new(true)
        .class("format_flags")
        .class(match e.base {
            0 => "Display",
            1 => "Binary",
            2 => "Octal",
            3 => "LowerHex",
            _ => "UpperHex",
        })
        .class_if(r.is_zero(), "format_zero")
        .class_if(r.neg, "format_negative")
        .class_if(e.zero && e.has_width && w > digits.len(), "zero_padding_applies")
        .class_if(e.has_width && !e.zero && w > digits.len() + 3, "fill_padding_applies"))
}

/// values for conversions: boundaries of the 64-digit big-base threshold, radix^j +- 1, k*radix^j
fn conv_value(max_len: usize) -> BoxedStrategy<Vec<u64>> {
    prop_oneof![
        25 => gen::nat(4),
        10 => gen::nat(30),
        10 => gen::big_nat(vec![62, 63, 64, 65, 66, 100, max_len.min(128), max_len]),
        25 => (2u32..=36, 0u64..=((max_len as u64) * 12), -1i128..=1).prop_map(|(r, j, d)| {
            RefInt::from_nat(Nat::from_u64(r as u64).pow(j)).add(&RefInt::from_i128(d)).mag.to_u64_digits()
        }),
        15 => (2u32..=256, 0u64..=((max_len as u64) * 8), gen::nat(1)).prop_map(|(r, j, k)| {
            rn(&k).mul(&Nat::from_u64(r as u64).pow(j)).to_u64_digits()
        }),
        15 => (0usize..=max_len).prop_map(|k| vec![u64::MAX; k]),
    ]
    .boxed()
}

fn text_radix() -> BoxedStrategy<u32> {
    prop_oneof![40 => select(vec![2u32, 4, 8, 10, 16, 32, 36, 3, 7]), 60 => 2u32..=36].boxed()
}
fn digit_radix() -> BoxedStrategy<u32> {
    prop_oneof![35 => select(vec![2u32, 4, 8, 16, 32, 64, 128, 256, 10, 100, 255, 37]), 65 => 2u32..=256].boxed()
}

/// grammar-generated numerals, then optionally mutated
fn numeral() -> BoxedStrategy<(Vec<u8>, u32)> {
    let one = (text_radix(), prop_oneof![Just(""), Just("+"), Just("-")], vec((any::<u8>(), prop_oneof![85 => Just(0u8), 15 => 1u8..4]), 1..=60), any::<bool>(), 0usize..4)
        .prop_map(|(radix, sign, ds, upper, lead0)| {
            let mut s = sign.as_bytes().to_vec();
            for _ in 0..lead0 {
                s.push(b'0');
            }
            for (d, us) in ds {
                let c = std::char::from_digit((d as u32) % radix, radix).unwrap();
                s.push(if upper { c.to_ascii_uppercase() } else { c } as u8);
                for _ in 0..us {
                    s.push(b'_');
                }
            }
            (s, radix)
        });
    let mutate = (one.clone(), any::<u16>(), select(vec![b'_', b'+', b'-', b' ', b'z', b'Z', b'9', b'g', b'.', 0xc3, 0xff, b'\n', b'0', b'/' , b':', b'@', b'[', b'`', b'{']), 0u8..4)
        .prop_map(|((mut s, radix), pos, byte, kind)| {
            let p = gen::idx(pos, s.len() + 1);
            match kind {
                0 => s.insert(p, byte),
                1 => {
                    if !s.is_empty() {
                        let q = p.min(s.len() - 1);
                        s[q] = byte;
                    }
                }
                2 => s.truncate(p),
                _ => {
                    s.insert(0, byte);
                }
            }
            (s, radix)
        });
    prop_oneof![
        45 => one,
        40 => mutate,
        15 => (vec(prop_oneof![select(b"+-_0129aAzZ \xff\xc3\xa9".to_vec()), any::<u8>()], 0..8), text_radix()),
    ]
    .boxed()
}

/// values too large for the quadratic reference conversion: the emitted text is evaluated by Horner's rule
/// modulo three 61-bit primes (u128 arithmetic) and compared with the fingerprint of the value's digits;
/// alphabet, absence of a leading zero and parse-back are checked exactly
fn tostr_big(neg: bool, a: &[u64], radix: u32) -> Verdict {
    use crate::refint::{fingerprint_u64_digits, FP_PRIMES};
    if !(2..=36).contains(&radix) {
        return Err("harness: radix outside the generated domain".into());
    }
    let x = bi(neg, a);
    let text = must_return("to_str_radix", || x.to_str_radix(radix))?;
    check_alphabet(&text, radix, "to_str_radix (large value)")?;
    let body = text.strip_prefix('-').unwrap_or(&text);
    let is_zero = gen::trim(a.to_vec()).is_empty();
    if text.starts_with('-') != (neg && !is_zero) {
        return Err("to_str_radix (large value): wrong sign".into());
    }
    if body.is_empty() || (body.starts_with('0') && body != "0") {
        return Err("to_str_radix (large value): empty or leading zero".into());
    }
    let ad = x.magnitude().to_u64_digits();
    for p in FP_PRIMES {
        let mut h: u128 = 0;
        for ch in body.bytes() {
            h = (h * radix as u128 + (ch as char).to_digit(radix).unwrap() as u128) % p as u128;
        }
        if h as u64 != fingerprint_u64_digits(&ad, p) {
            return Err(format!("to_str_radix({}) of a {}-digit value: the text does not denote the value modulo the 61-bit prime {}", radix, ad.len(), p));
        }
    }
    match must_return("from_str_radix", || BigInt::from_str_radix(&text, radix))? {
        Ok(v) => {
            if v != x {
                return Err("from_str_radix(to_str_radix(x)) != x for a large value".into());
            }
        }
        Err(e) => return Err(format!("from_str_radix rejected to_str_radix's output for a large value: {:?}", e)),
    }
    // digit-vector form, same oracle
    let r2 = if radix % 2 == 0 { radix * 7 } else { radix + 200 };
    let dv = must_return("to_radix_le", || x.magnitude().to_radix_le(r2))?;
    if dv.iter().any(|d| *d as u32 >= r2) || (dv.len() > 1 && dv.last() == Some(&0)) {
        return Err(format!("to_radix_le({}) of a large value: digit out of range or leading zero", r2));
    }
    for p in FP_PRIMES {
        let mut h: u128 = 0;
        for d in dv.iter().rev() {
            h = (h * r2 as u128 + *d as u128) % p as u128;
        }
        if h as u64 != fingerprint_u64_digits(&ad, p) {
            return Err(format!("to_radix_le({}) of a {}-digit value does not denote the value modulo the prime {}", r2, ad.len(), p));
        }
    }
    match must_return("from_radix_le", || BigUint::from_radix_le(&dv, r2))? {
        Some(v) => {
            if &v != x.magnitude() {
                return Err("from_radix_le(to_radix_le(x)) != x for a large value".into());
            }
        }
        None => return Err("from_radix_le rejected to_radix_le's output".into()),
    }
    Ok(Info::new(true).class("large_value_fingerprint_oracle"))
}

impl Property for C06 {
    fn id(&self) -> &'static str {
        "C06"
    }
    fn rule(&self) -> &'static str {
        "Cases: tostr (value x radix 2..=36 plus bad radices 0,1,37,u32::MAX: to_str_radix of BigInt/BigUint against the reference text, lower-case alphabet, parse-back incl. upper-case, Display/FromStr for radix 10), toradix (value x radix 2..=256 plus bad radices: to_radix_le/be of both types, from_radix round trips), parse (byte strings generated from the grammar sign? lead-zeros digit (digit|_)* in a random radix and letter case, then mutated by inserting/replacing/truncating/prefixing with signs, '_', out-of-radix digits, whitespace, punctuation next to the digit ranges, non-ASCII and invalid UTF-8; an independent recogniser decides well-formedness and Horner evaluation in RefInt gives the value; checked through parse_bytes, from_str_radix and FromStr of both types), fromradix (digit slices with and without out-of-range digits, empty, leading zeros, radix 2..=256, all three signs), fmt (320 static format specs = {no align,<,^,>,*<,*^,*>} x {+} x {#} x {0} x {Display,b,o,x,X} with a runtime width 0..40 plus the width-less variants, for BigInt and BigUint, against an independent padding model that is itself compared with std's formatting of i128/u128 in every run). Values: 0, single digits, lengths 62..66 around the 64-digit big-base threshold and up to 200 (quick) / 700 (thorough) digits, radix^j+{-1,0,1}, k*radix^j (long zero runs), all-ones. Non-trivial: value >= 2 native digits, or a string with '_', a sign, leading zeros or >= 20 digits; all fmt cases."
    }
    fn strategy(&self, tier: Tier) -> BoxedStrategy<Case> {
        let ml = match tier {
            Tier::Quick => 200,
            Tier::Thorough => 700,
        };
        let huge_w = match tier { Tier::Quick => 0u32, Tier::Thorough => 1 };
        let huge = (any::<bool>(), gen::big_nat(vec![800, 1500, 3000, 4096]), 2u32..=36).prop_map(|(s, a, r)| Case::new("tostr.big", vec![Arg::Z(s, a), Arg::U(r as u128)]));
        let bad_text = select(vec![0u32, 1, 37, 38, 256, u32::MAX]);
        let bad_digit = select(vec![0u32, 1, 257, 258, 1000, 512, 1024, 65536, 1 << 31, u32::MAX]);
        prop_oneof![
            huge_w => huge,
            220 => (any::<bool>(), conv_value(ml), text_radix()).prop_map(|(s, a, r)| Case::new("tostr", vec![Arg::Z(s, a), Arg::U(r as u128)])),
            10 => (any::<bool>(), gen::nat(2), bad_text).prop_map(|(s, a, r)| Case::new("tostr", vec![Arg::Z(s, a), Arg::U(r as u128)])),
            160 => (any::<bool>(), conv_value(ml), digit_radix()).prop_map(|(s, a, r)| Case::new("toradix", vec![Arg::Z(s, a), Arg::U(r as u128)])),
            10 => (any::<bool>(), gen::nat(2), bad_digit).prop_map(|(s, a, r)| Case::new("toradix", vec![Arg::Z(s, a), Arg::U(r as u128)])),
            250 => numeral().prop_map(|(b, r)| Case::new("parse", vec![Arg::B(b), Arg::U(r as u128)])),
            50 => (text_radix(), 0usize..=130, any::<u64>(), 0usize..40).prop_map(|(r, n, seed, zeros)| {
                // long well-formed numerals: lengths at every residue of the per-radix chunk size, long leading-zero runs
                let mut s = vec![b'0'; zeros];
                let mut x = seed | 1;
                for _ in 0..n { x = x.wrapping_mul(6364136223846793005).wrapping_add(1442695040888963407); s.push(std::char::from_digit(((x >> 33) as u32) % r, r).unwrap() as u8); }
                Case::new("parse", vec![Arg::B(s), Arg::U(r as u128)])
            }),
            120 => (vec(any::<u8>(), 0..=70), digit_radix(), -1i128..=1, any::<bool>(), 0usize..30).prop_map(|(mut d, r, sg, clamp, zeros)| {
                if clamp { for x in d.iter_mut() { *x = ((*x as u32) % r.min(256)) as u8; } }
                let mut v = vec![0u8; zeros % 30 * (clamp as usize)];
                v.extend(d);
                Case::new("fromradix", vec![Arg::B(v), Arg::U(r as u128), Arg::I(sg)])
            }),
            180 => (any::<bool>(), prop_oneof![gen::nat(2), gen::nat(0), gen::nat(5)], 0usize..TABLE.len(), 0usize..=40).prop_map(|(s, a, i, w)| Case::new("fmt", vec![Arg::Z(s, a), Arg::U(i as u128), Arg::U(w as u128)])),
        ]
        .boxed()
    }
    fn check(&self, c: &Case) -> Verdict {
        match c.op.as_str() {
            "tostr.big" => {
                let (s, a) = c.z(0);
                tostr_big(s, a, c.u(1) as u32)
            }
            "tostr" => {
                let (s, a) = c.z(0);
                tostr(s, a, c.u(1) as u32)
            }
            "toradix" => {
                let (s, a) = c.z(0);
                toradix(s, a, c.u(1) as u32)
            }
            "parse" => {
                let r = c.u(1) as u32;
                if !(2..=36).contains(&r) {
                    return Err("harness: radix outside the generated domain".into());
                }
                parse_case(c.b(0), r)
            }
            "fromradix" => fromradix(c.b(0), c.u(1) as u32, c.i(2)),
            "fmt" => {
                let (s, a) = c.z(0);
                fmt_case(s, a, c.u(1) as usize, c.u(2) as usize)
            }
            o => Err(format!("unknown op {}", o)),
        }
    }
    fn budget(&self, tier: Tier) -> Budget {
        match tier {
            Tier::Quick => Budget { release: 900_000, dbg: 240_000, workers: 8 },
            Tier::Thorough => Budget { release: 8_000_000, dbg: 1_600_000, workers: 16 },
        }
    }
    fn probes(&self) -> Vec<Probe> {
        use Probe::*;
        vec![RADIX_OUT_BITWISE, RADIX_OUT_INEXACT_BITWISE, RADIX_OUT_CHUNKED, RADIX_OUT_BIG_BASE, RADIX_IN_BITWISE, RADIX_IN_INEXACT_BITWISE, RADIX_IN_CHUNKED]
    }
    fn assumptions(&self) -> Vec<String> {
        vec![
            "reference digits come from RefInt division by the largest radix power below 2^32 (cross-checked against CPython)".into(),
            "thorough adds values of 800..4096 digits whose text and digit vectors are decided by Horner evaluation modulo three 61-bit primes (plus exact alphabet / leading-zero / parse-back checks)".into(),
            "only the 320 static format specs of props/fmt_table.rs are exercised (Rust format specs are compile-time); width is a runtime argument 0..40".into(),
            "the recogniser encodes the documented grammar: one optional sign ('+' or, for BigInt, '-'), first character after the sign a digit, '_' anywhere later, digits below the radix in either case".into(),
        ]
    }
}
