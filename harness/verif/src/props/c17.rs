//! C17 — the serialized form is the portable u32-digit format and round-trips exactly.
//!
//! A recording `Serializer` captures the token stream the library emits; a replaying
//! self-describing `Deserializer` feeds generated token streams (with controllable size hints).
use crate::engine::*;
use crate::gen;
use crate::lib_util::*;
use crate::refint::{Nat, RefInt};
use nbcase::{Arg, Case};
use num_bigint::{BigInt, BigUint};
use proptest::collection::vec;
use proptest::prelude::*;
use proptest::sample::select;
use serde::de::{self, DeserializeSeed, SeqAccess, Visitor};
use serde::ser::{self, Impossible, SerializeSeq, SerializeTuple};
use serde::{Deserialize, Serialize};
use std::fmt;

pub struct C17;

#[derive(Clone, Debug, PartialEq)]
pub enum Tok {
    U32(u32),
    U64(u64),
    I8(i8),
    I64(i64),
    Str(String),
    Seq(Option<usize>, Vec<Tok>),
    Tuple(usize, Vec<Tok>),
    Other(&'static str),
}

#[derive(Debug)]
pub struct Err_(String);
impl fmt::Display for Err_ {
    fn fmt(&self, f: &mut fmt::Formatter<'_>) -> fmt::Result {
        f.write_str(&self.0)
    }
}
impl std::error::Error for Err_ {}
impl ser::Error for Err_ {
    fn custom<T: fmt::Display>(m: T) -> Self {
        Err_(m.to_string())
    }
}
impl de::Error for Err_ {
    fn custom<T: fmt::Display>(m: T) -> Self {
        Err_(m.to_string())
    }
}

// ---------------------------------------------------------------- recording serializer
struct Rec;
struct RecSeq {
    declared: Option<usize>,
    items: Vec<Tok>,
    tuple: Option<usize>,
}

impl SerializeSeq for RecSeq {
    type Ok = Tok;
    type Error = Err_;
    fn serialize_element<T: ?Sized + Serialize>(&mut self, v: &T) -> Result<(), Err_> {
        self.items.push(v.serialize(Rec)?);
        Ok(())
    }
    fn end(self) -> Result<Tok, Err_> {
        Ok(Tok::Seq(self.declared, self.items))
    }
}
impl SerializeTuple for RecSeq {
    type Ok = Tok;
    type Error = Err_;
    fn serialize_element<T: ?Sized + Serialize>(&mut self, v: &T) -> Result<(), Err_> {
        self.items.push(v.serialize(Rec)?);
        Ok(())
    }
    fn end(self) -> Result<Tok, Err_> {
        Ok(Tok::Tuple(self.tuple.unwrap_or(0), self.items))
    }
}

macro_rules! other {
    ($($name:ident($t:ty)),*) => {$(
        fn $name(self, _v: $t) -> Result<Tok, Err_> { Ok(Tok::Other(stringify!($name))) }
    )*};
}

impl ser::Serializer for Rec {
    type Ok = Tok;
    type Error = Err_;
    type SerializeSeq = RecSeq;
    type SerializeTuple = RecSeq;
    type SerializeTupleStruct = Impossible<Tok, Err_>;
    type SerializeTupleVariant = Impossible<Tok, Err_>;
    type SerializeMap = Impossible<Tok, Err_>;
    type SerializeStruct = Impossible<Tok, Err_>;
    type SerializeStructVariant = Impossible<Tok, Err_>;
    fn serialize_u32(self, v: u32) -> Result<Tok, Err_> {
        Ok(Tok::U32(v))
    }
    fn serialize_u64(self, v: u64) -> Result<Tok, Err_> {
        Ok(Tok::U64(v))
    }
    fn serialize_i8(self, v: i8) -> Result<Tok, Err_> {
        Ok(Tok::I8(v))
    }
    fn serialize_i64(self, v: i64) -> Result<Tok, Err_> {
        Ok(Tok::I64(v))
    }
    other!(serialize_bool(bool), serialize_i16(i16), serialize_i32(i32), serialize_u8(u8), serialize_u16(u16), serialize_f32(f32), serialize_f64(f64), serialize_char(char), serialize_bytes(&[u8]));
    fn serialize_str(self, v: &str) -> Result<Tok, Err_> {
        Ok(Tok::Str(v.to_string()))
    }
    fn serialize_none(self) -> Result<Tok, Err_> {
        Ok(Tok::Other("none"))
    }
    fn serialize_some<T: ?Sized + Serialize>(self, _v: &T) -> Result<Tok, Err_> {
        Ok(Tok::Other("some"))
    }
    fn serialize_unit(self) -> Result<Tok, Err_> {
        Ok(Tok::Other("unit"))
    }
    fn serialize_unit_struct(self, _n: &'static str) -> Result<Tok, Err_> {
        Ok(Tok::Other("unit_struct"))
    }
    fn serialize_unit_variant(self, _n: &'static str, _i: u32, _v: &'static str) -> Result<Tok, Err_> {
        Ok(Tok::Other("unit_variant"))
    }
    fn serialize_newtype_struct<T: ?Sized + Serialize>(self, _n: &'static str, v: &T) -> Result<Tok, Err_> {
        v.serialize(Rec)
    }
    fn serialize_newtype_variant<T: ?Sized + Serialize>(self, _n: &'static str, _i: u32, _v: &'static str, _t: &T) -> Result<Tok, Err_> {
        Ok(Tok::Other("newtype_variant"))
    }
    fn serialize_seq(self, len: Option<usize>) -> Result<RecSeq, Err_> {
        Ok(RecSeq { declared: len, items: vec![], tuple: None })
    }
    fn serialize_tuple(self, len: usize) -> Result<RecSeq, Err_> {
        Ok(RecSeq { declared: None, items: vec![], tuple: Some(len) })
    }
    fn serialize_tuple_struct(self, _n: &'static str, _l: usize) -> Result<Self::SerializeTupleStruct, Err_> {
        Err(Err_("tuple_struct".into()))
    }
    fn serialize_tuple_variant(self, _n: &'static str, _i: u32, _v: &'static str, _l: usize) -> Result<Self::SerializeTupleVariant, Err_> {
        Err(Err_("tuple_variant".into()))
    }
    fn serialize_map(self, _l: Option<usize>) -> Result<Self::SerializeMap, Err_> {
        Err(Err_("map".into()))
    }
    fn serialize_struct(self, _n: &'static str, _l: usize) -> Result<Self::SerializeStruct, Err_> {
        Err(Err_("struct".into()))
    }
    fn serialize_struct_variant(self, _n: &'static str, _i: u32, _v: &'static str, _l: usize) -> Result<Self::SerializeStructVariant, Err_> {
        Err(Err_("struct_variant".into()))
    }
}

// ---------------------------------------------------------------- replaying deserializer
struct De<'a>(&'a Tok);
struct SeqDe<'a> {
    items: std::slice::Iter<'a, Tok>,
    hint: Option<usize>,
}

impl<'de, 'a> SeqAccess<'de> for SeqDe<'a> {
    type Error = Err_;
    fn next_element_seed<T: DeserializeSeed<'de>>(&mut self, seed: T) -> Result<Option<T::Value>, Err_> {
        match self.items.next() {
            None => Ok(None),
            Some(t) => seed.deserialize(De(t)).map(Some),
        }
    }
    fn size_hint(&self) -> Option<usize> {
        self.hint
    }
}

impl<'de, 'a> de::Deserializer<'de> for De<'a> {
    type Error = Err_;
    fn deserialize_any<V: Visitor<'de>>(self, v: V) -> Result<V::Value, Err_> {
        match self.0 {
            Tok::U32(x) => v.visit_u32(*x),
            Tok::U64(x) => v.visit_u64(*x),
            Tok::I8(x) => v.visit_i8(*x),
            Tok::I64(x) => v.visit_i64(*x),
            Tok::Str(s) => v.visit_str(s),
            Tok::Seq(hint, items) => v.visit_seq(SeqDe { items: items.iter(), hint: *hint }),
            Tok::Tuple(_, items) => v.visit_seq(SeqDe { items: items.iter(), hint: Some(items.len()) }),
            Tok::Other(n) => Err(Err_(format!("unsupported token {}", n))),
        }
    }
    serde::forward_to_deserialize_any! {
        bool i8 i16 i32 i64 i128 u8 u16 u32 u64 u128 f32 f64 char str string bytes byte_buf option unit
        unit_struct newtype_struct seq tuple tuple_struct map struct enum identifier ignored_any
    }
}

// ---------------------------------------------------------------- typed (non-self-describing) deserializer
// Models a format such as bincode, which carries no type tags: the value is only recoverable if the impl asks for
// exactly the shape that was written (tuple of 2, i8, seq, u32). `deserialize_any` and every other request fail.
struct TypedDe<'a>(&'a Tok);

macro_rules! typed_reject {
    ($($name:ident)*) => { $(
        fn $name<V: Visitor<'de>>(self, _v: V) -> Result<V::Value, Err_> {
            Err(Err_(format!("typed format: {} requested for {:?}", stringify!($name), self.0.kind())))
        }
    )* };
}

impl Tok {
    fn kind(&self) -> &'static str {
        match self {
            Tok::U32(_) => "u32",
            Tok::U64(_) => "u64",
            Tok::I8(_) => "i8",
            Tok::I64(_) => "i64",
            Tok::Str(_) => "str",
            Tok::Seq(..) => "seq",
            Tok::Tuple(..) => "tuple",
            Tok::Other(_) => "other",
        }
    }
}

struct TypedSeq<'a>(std::slice::Iter<'a, Tok>, Option<usize>);
impl<'de, 'a> SeqAccess<'de> for TypedSeq<'a> {
    type Error = Err_;
    fn next_element_seed<T: DeserializeSeed<'de>>(&mut self, seed: T) -> Result<Option<T::Value>, Err_> {
        match self.0.next() {
            None => Ok(None),
            Some(t) => seed.deserialize(TypedDe(t)).map(Some),
        }
    }
    fn size_hint(&self) -> Option<usize> {
        self.1
    }
}

impl<'de, 'a> de::Deserializer<'de> for TypedDe<'a> {
    type Error = Err_;
    fn is_human_readable(&self) -> bool {
        false
    }
    fn deserialize_u32<V: Visitor<'de>>(self, v: V) -> Result<V::Value, Err_> {
        match self.0 {
            Tok::U32(x) => v.visit_u32(*x),
            t => Err(Err_(format!("typed format: u32 requested for {}", t.kind()))),
        }
    }
    fn deserialize_i8<V: Visitor<'de>>(self, v: V) -> Result<V::Value, Err_> {
        match self.0 {
            Tok::I8(x) => v.visit_i8(*x),
            t => Err(Err_(format!("typed format: i8 requested for {}", t.kind()))),
        }
    }
    fn deserialize_seq<V: Visitor<'de>>(self, v: V) -> Result<V::Value, Err_> {
        match self.0 {
            Tok::Seq(h, items) => v.visit_seq(TypedSeq(items.iter(), *h)),
            t => Err(Err_(format!("typed format: seq requested for {}", t.kind()))),
        }
    }
    fn deserialize_tuple<V: Visitor<'de>>(self, len: usize, v: V) -> Result<V::Value, Err_> {
        match self.0 {
            Tok::Tuple(n, items) if *n == len && items.len() == len => v.visit_seq(TypedSeq(items.iter(), Some(len))),
            t => Err(Err_(format!("typed format: tuple({}) requested for {}", len, t.kind()))),
        }
    }
    fn deserialize_tuple_struct<V: Visitor<'de>>(self, _n: &'static str, _l: usize, _v: V) -> Result<V::Value, Err_> {
        Err(Err_("typed format: tuple_struct requested".into()))
    }
    fn deserialize_struct<V: Visitor<'de>>(self, _n: &'static str, _f: &'static [&'static str], _v: V) -> Result<V::Value, Err_> {
        Err(Err_("typed format: struct requested".into()))
    }
    fn deserialize_enum<V: Visitor<'de>>(self, _n: &'static str, _f: &'static [&'static str], _v: V) -> Result<V::Value, Err_> {
        Err(Err_("typed format: enum requested".into()))
    }
    fn deserialize_unit_struct<V: Visitor<'de>>(self, _n: &'static str, _v: V) -> Result<V::Value, Err_> {
        Err(Err_("typed format: unit_struct requested".into()))
    }
    fn deserialize_newtype_struct<V: Visitor<'de>>(self, _n: &'static str, v: V) -> Result<V::Value, Err_> {
        v.visit_newtype_struct(self)
    }
    typed_reject! {
        deserialize_any deserialize_bool deserialize_i16 deserialize_i32 deserialize_i64 deserialize_i128
        deserialize_u8 deserialize_u16 deserialize_u64 deserialize_u128 deserialize_f32 deserialize_f64
        deserialize_char deserialize_str deserialize_string deserialize_bytes deserialize_byte_buf
        deserialize_option deserialize_unit deserialize_map deserialize_identifier deserialize_ignored_any
    }
}

fn expect_u(n: &Nat) -> Tok {
    let d = n.to_u32_digits();
    Tok::Seq(Some(d.len()), d.into_iter().map(Tok::U32).collect())
}

fn ser_case(neg: bool, a: &[u64]) -> Verdict {
    let x = bi(neg, a);
    let u = bu(a);
    let r = ri(neg, a);
    let got = must_return("BigUint::serialize", || u.serialize(Rec))?.map_err(|e| format!("serialize failed: {}", e))?;
    let want = expect_u(&r.mag);
    if got != want {
        return Err(format!("BigUint serialized as {} but the portable format is {}", trunc(&format!("{:?}", got), 300), trunc(&format!("{:?}", want), 300)));
    }
    let got = must_return("BigInt::serialize", || x.serialize(Rec))?.map_err(|e| format!("serialize failed: {}", e))?;
    let wanti = Tok::Tuple(2, vec![Tok::I8(r.signum() as i8), want.clone()]);
    if got != wanti {
        return Err(format!("BigInt serialized as {} but the portable format is {}", trunc(&format!("{:?}", got), 300), trunc(&format!("{:?}", wanti), 300)));
    }
    // round trips
    match must_return("BigUint::deserialize", || BigUint::deserialize(De(&want)))? {
        Ok(v) => ctx(eq_bu(&v, &r.mag), "deserialize(serialize(BigUint))")?,
        Err(e) => return Err(format!("BigUint::deserialize rejected its own output: {}", e)),
    }
    match must_return("BigInt::deserialize", || BigInt::deserialize(De(&wanti)))? {
        Ok(v) => ctx(eq_bi(&v, &r), "deserialize(serialize(BigInt))")?,
        Err(e) => return Err(format!("BigInt::deserialize rejected its own output: {}", e)),
    }
    // the same round trip through a format without type tags (bincode-like): only succeeds if the impls request
    // exactly tuple(2) / i8 / seq / u32, in the shape that was written
    match must_return("BigUint::deserialize (typed format)", || BigUint::deserialize(TypedDe(&want)))? {
        Ok(v) => ctx(eq_bu(&v, &r.mag), "deserialize(serialize(BigUint)) through a non-self-describing format")?,
        Err(e) => return Err(format!("BigUint does not round-trip through a non-self-describing format: {}", e)),
    }
    match must_return("BigInt::deserialize (typed format)", || BigInt::deserialize(TypedDe(&wanti)))? {
        Ok(v) => ctx(eq_bi(&v, &r), "deserialize(serialize(BigInt)) through a non-self-describing format")?,
        Err(e) => return Err(format!("BigInt does not round-trip through a non-self-describing format: {}", e)),
    }
    let nd = r.mag.to_u32_digits().len();
    Ok(Info::new(nd >= 2)
        .class("serialize_and_round_trip")
        .class_if(nd % 2 == 1, "top_u64_digit_high_half_zero")
        .class_if(r.mag.to_u32_digits().last() == Some(&u32::MAX) && nd % 2 == 1, "top_u32_digit_all_ones")
        .class_if(r.is_zero(), "zero"))
}

/// element kinds: 0 = U32, 1 = U64 (fits or not), 2 = Str
fn de_case(elems: &[Arg], hint_mode: i128, sign_tok: i128, sign_kind: i128) -> Verdict {
    let mut items = vec![];
    let mut valid = true;
    let mut words: Vec<u32> = vec![];
    for e in elems {
        let e = e.as_l();
        let kind = e[0].as_i();
        let val = e[1].as_u() as u64;
        match kind {
            0 => {
                items.push(Tok::U32(val as u32));
                words.push(val as u32);
            }
            1 => {
                items.push(Tok::U64(val));
                if val > u32::MAX as u64 {
                    valid = false;
                } else {
                    words.push(val as u32);
                }
            }
            _ => {
                items.push(Tok::Str("7".into()));
                valid = false;
            }
        }
    }
    let hint = match hint_mode {
        0 => Some(items.len()),
        1 => None,
        2 => Some(items.len() / 2),
        3 => Some(usize::MAX),
        4 => Some(items.len() + 1),
        _ => Some(0),
    };
    let seq = Tok::Seq(hint, items.clone());
    let n = Nat::from_u32_digits(&words);
    let got = must_return("BigUint::deserialize", || BigUint::deserialize(De(&seq)))?;
    match (&got, valid) {
        (Ok(v), true) => ctx(eq_bu(v, &n), "BigUint::deserialize")?,
        (Err(_), false) => {}
        (Ok(v), false) => return Err(format!("BigUint::deserialize accepted a sequence with a non-u32 element and returned {}", v)),
        (Err(e), true) => return Err(format!("BigUint::deserialize rejected a valid u32 sequence: {}", e)),
    }
    // BigInt: (sign, sequence)
    let st = match sign_kind {
        0 => Tok::I8(sign_tok as i8),
        1 => Tok::I64(sign_tok as i64),
        2 => Tok::U32(sign_tok.unsigned_abs() as u32),
        4 => Tok::U64(sign_tok as i64 as u64), // e.g. -1 presented as the unsigned value u64::MAX: out of range, not Minus
        _ => Tok::Str("+".into()),
    };
    let sign_val: Option<i128> = match sign_kind {
        0 => Some(sign_tok as i8 as i128),
        1 => Some(sign_tok as i64 as i128),
        2 => Some(sign_tok.unsigned_abs() as u32 as i128),
        4 => Some(sign_tok as i64 as u64 as i128),
        _ => None,
    };
    let sign_ok = matches!(sign_val, Some(-1) | Some(0) | Some(1));
    let pair = Tok::Tuple(2, vec![st, seq.clone()]);
    let goti = must_return("BigInt::deserialize", || BigInt::deserialize(De(&pair)))?;
    let wanti = match sign_val {
        Some(0) => RefInt::zero(),
        Some(s) => RefInt::new(s < 0, n.clone()),
        None => RefInt::zero(),
    };
    match (&goti, valid && sign_ok) {
        (Ok(v), true) => ctx(eq_bi(v, &wanti), "BigInt::deserialize")?,
        (Err(_), false) => {}
        (Ok(v), false) => return Err(format!("BigInt::deserialize accepted an invalid {} and returned {}", if sign_ok { "digit sequence" } else { "sign" }, v)),
        (Err(e), true) => return Err(format!("BigInt::deserialize rejected a valid (sign, sequence) pair: {}", e)),
    }
    // the in-place form (Deserialize::deserialize_in_place) over an existing value must give the same result
    {
        let prev_digits: Vec<u32> = (0..(hint_mode as usize % 3) * 2 + 1).map(|i| 0x9000_0000u32 + i as u32).collect();
        for prev in [BigUint::new(vec![]), BigUint::new(vec![7]), BigUint::new(prev_digits.clone())] {
            let mut place = prev.clone();
            let r = must_return("BigUint::deserialize_in_place", || <BigUint as Deserialize>::deserialize_in_place(De(&seq), &mut place))?;
            match (r, valid) {
                (Ok(()), true) => ctx(eq_bu(&place, &n), "BigUint::deserialize_in_place over an existing value")?,
                (Err(_), false) => {}
                (Ok(()), false) => return Err("BigUint::deserialize_in_place accepted a sequence with a non-u32 element".into()),
                (Err(e), true) => return Err(format!("BigUint::deserialize_in_place rejected a valid u32 sequence: {}", e)),
            }
        }
        let mut place = BigInt::from(-5);
        let r = must_return("BigInt::deserialize_in_place", || <BigInt as Deserialize>::deserialize_in_place(De(&pair), &mut place))?;
        match (r, valid && sign_ok) {
            (Ok(()), true) => ctx(eq_bi(&place, &wanti), "BigInt::deserialize_in_place over an existing value")?,
            (Err(_), false) => {}
            (Ok(()), false) => return Err("BigInt::deserialize_in_place accepted an invalid pair".into()),
            (Err(e), true) => return Err(format!("BigInt::deserialize_in_place rejected a valid pair: {}", e)),
        }
    }
    // a too-short / too-long tuple must be an error, never a panic
    let short = Tok::Tuple(1, vec![Tok::I8(1)]);
    if must_return("BigInt::deserialize (short tuple)", || BigInt::deserialize(De(&short)))?.is_ok() {
        return Err("BigInt::deserialize accepted a 1-element tuple".into());
    }
    let padded = words.last() == Some(&0);
    let inconsistent = sign_ok && valid && ((sign_val == Some(0) && !n.is_zero()) || (sign_val != Some(0) && n.is_zero()));
    Ok(Info::new(words.len() >= 2 || padded || inconsistent)
        .class("deserialize_token_streams")
        .class_if(padded, "trailing_zero_digits")
        .class_if(words.len() % 2 == 1, "odd_length")
        .class_if(words.is_empty(), "empty_sequence")
        .class_if(inconsistent, "sign_inconsistent_with_magnitude")
        .class_if(!sign_ok, "invalid_sign")
        .class_if(!valid, "non_u32_element")
        .class_if(hint_mode == 1, "no_size_hint")
        .class_if(hint_mode == 3, "huge_size_hint")
        .class_if(hint_mode == 2 || hint_mode == 5, "size_hint_too_small"))
}

impl Property for C17 {
    fn id(&self) -> &'static str {
        "C17"
    }
    fn rule(&self) -> &'static str {
        "Cases: ser (a value: the token stream emitted through a recording Serializer must be exactly seq(Some(len)) of the base-2^32 digits, least significant first, no trailing zero, zero = empty sequence; BigInt = tuple(i8 sign in {-1,0,1}, that sequence); deserializing the emitted stream returns the value, both through a self-describing replay and through a typed, bincode-like one that only honours tuple(2)/i8/seq/u32 requests) and de (a generated token stream fed through a replaying Deserializer: u32 lists with trailing zeros, odd/even length, empty; elements given as u32 or u64 tokens (in or out of u32 range) or a string; size hints exact / absent / half / usize::MAX / one too many / zero; sign tokens -1,0,1 and invalid values as i8, i64, u32 or a string; sign presented as an unsigned 64-bit token (so -1 arrives as u64::MAX); inconsistent sign vs magnitude; a 1-element tuple; and the same streams through Deserialize::deserialize_in_place over empty, short and long existing values). Results must be the canonical denoted value, or an error for invalid signs / non-u32 elements, never a panic. Values include top u64 digits with a zero high half and with a high half of 0xFFFFFFFF / low half all ones. Non-trivial: >= 2 u32 digits, or a padded or inconsistent stream."
    }
    fn technique(&self) -> &'static str {
        "property-based testing (proptest) with a hand-written recording Serializer and token-replaying Deserializer (serde data model), RefInt digits as the oracle"
    }
    fn strategy(&self, _tier: Tier) -> BoxedStrategy<Case> {
        let val = prop_oneof![
            40 => gen::nat(4),
            25 => (vec(gen::digit(), 0..=3), prop_oneof![select(vec![1u64, u32::MAX as u64, (u32::MAX as u64) - 1, 1 << 31, (u32::MAX as u64) + 1, 1 << 32, u64::MAX, 0xFFFF_FFFF_0000_0000]), any::<u32>().prop_map(|x| x as u64)])
                .prop_map(|(mut v, t)| { v.push(t); gen::trim(v) }),
            15 => gen::nat(20),
            20 => (0u64..=200, -1i128..=1).prop_map(|(k, d)| RefInt::from_nat(Nat::pow2(k)).add(&RefInt::from_i128(d)).mag.to_u64_digits()),
        ];
        let ser = (any::<bool>(), val).prop_map(|(s, a)| Case::new("ser", vec![Arg::Z(s, a)]));
        let elem = prop_oneof![
            80 => prop_oneof![select(vec![0u64, 0, 1, u32::MAX as u64]), any::<u32>().prop_map(|x| x as u64)].prop_map(|v| Arg::L(vec![Arg::I(0), Arg::U(v as u128)])),
            15 => prop_oneof![any::<u32>().prop_map(|x| x as u64), select(vec![u32::MAX as u64 + 1, u64::MAX])].prop_map(|v| Arg::L(vec![Arg::I(1), Arg::U(v as u128)])),
            5 => Just(Arg::L(vec![Arg::I(2), Arg::U(0)])),
        ];
        let de = (vec(elem, 0..=9), 0usize..=6, 0i128..=5, prop_oneof![70 => -1i128..=1, 30 => select(vec![2i128, -2, 127, -128, 255, 256, -129])], prop_oneof![65 => Just(0i128), 35 => 0i128..=4]).prop_map(|(mut e, zeros, hint, st, sk)| {
            for _ in 0..zeros.saturating_sub(3) {
                e.push(Arg::L(vec![Arg::I(0), Arg::U(0)]));
            }
            Case::new("de", vec![Arg::L(e), Arg::I(hint), Arg::I(st), Arg::I(sk)])
        });
        prop_oneof![45 => ser, 55 => de].boxed()
    }
    fn check(&self, c: &Case) -> Verdict {
        match c.op.as_str() {
            "ser" => {
                let (s, a) = c.z(0);
                ser_case(s, a)
            }
            "de" => de_case(c.l(0), c.i(1), c.i(2), c.i(3)),
            o => Err(format!("unknown op {}", o)),
        }
    }
    fn budget(&self, tier: Tier) -> Budget {
        match tier {
            Tier::Quick => Budget { release: 3_600_000, dbg: 1_200_000, workers: 8 },
            Tier::Thorough => Budget { release: 120_000_000, dbg: 30_000_000, workers: 16 },
        }
    }
    fn assumptions(&self) -> Vec<String> {
        vec![
            "the replaying Deserializer is self-describing (like JSON): integer tokens are offered through visit_u32/visit_u64/visit_i8/visit_i64 and serde's primitive visitors decide range".into(),
            "only the 64-bit digit implementation can be built here; independence from the digit width is checked as 'the emitted tokens are the u32 digits of the value'".into(),
        ]
    }
}
