//! C16 — all documented feature configurations build and compute identical results.
use crate::engine::*;
use crate::flavours;
use crate::gen;
use crate::json::J;
use crate::refint::{Nat, RefInt};
use nbcase::{Arg, Case};
use proptest::prelude::*;
use proptest::sample::select;
use std::process::Command;

pub struct C16;

const STD_ONLY: [&str; 2] = ["quickcheck", "arbitrary"];
const ANY: [&str; 2] = ["rand", "serde"];

/// the configuration matrix: all subsets of {rand,serde,quickcheck,arbitrary} with std, all
/// subsets of {rand,serde} without std (ci/test_full.sh), each in dev and release
pub fn matrix() -> Vec<(String, String)> {
    let mut v = vec![];
    for prof in ["dev", "release"] {
        for mask in 0..16u32 {
            let mut f = vec!["std"];
            for (i, n) in ANY.iter().chain(STD_ONLY.iter()).enumerate() {
                if mask & (1 << i) != 0 {
                    f.push(n);
                }
            }
            v.push((f.join(","), prof.to_string()));
        }
        for mask in 0..4u32 {
            let mut f: Vec<&str> = vec![];
            for (i, n) in ANY.iter().enumerate() {
                if mask & (1 << i) != 0 {
                    f.push(n);
                }
            }
            v.push((f.join(","), prof.to_string()));
        }
    }
    v
}

fn build_config(features: &str, profile: &str) -> Verdict {
    let vd = std::env::var("VERIF_DIR").unwrap_or_else(|_| "/verif".into());
    // one target dir per (features) so that parallel builds do not lock each other
    let tdir = format!("{}/work/matrix/{}", vd, if features.is_empty() { "none".to_string() } else { features.replace(',', "_") });
    let mut c = Command::new("cargo");
    c.arg("build")
        .arg("--offline")
        .arg("--manifest-path")
        .arg("/repo/Cargo.toml")
        .arg("--no-default-features")
        .arg("--target-dir")
        .arg(&tdir)
        .env("CARGO_TERM_COLOR", "never")
        .env("CARGO_NET_OFFLINE", "true")
        .env_remove("RUSTFLAGS");
    if !features.is_empty() {
        c.arg("--features").arg(features);
    }
    if profile == "release" {
        c.arg("--release");
    }
    // the user-facing configuration: hooks off (run from / so that the harness's .cargo/config.toml is not picked up)
    c.current_dir("/");
    let o = c.output().map_err(|e| format!("cannot run cargo: {}", e));
    let o = match o {
        Ok(o) => o,
        Err(m) => {
            eprintln!("HARNESS-ERROR: {}", m);
            std::process::exit(2);
        }
    };
    if o.status.success() {
        Ok(Info::new(true).class("config_builds").class_if(!features.contains("std"), "no_std_config"))
    } else {
        let err = String::from_utf8_lossy(&o.stderr);
        let first: Vec<&str> = err.lines().filter(|l| l.starts_with("error")).take(3).collect();
        Err(format!(
            "num-bigint does not compile with --no-default-features --features \"{}\" ({} profile): {}",
            features,
            profile,
            first.join(" | ")
        ))
    }
}

fn expect_field(out: &str, key: &str) -> Result<String, String> {
    nbcase::exec::field(out, key).map(|s| s.to_string()).ok_or_else(|| format!("executor outcome lacks field {}", key))
}

fn parse_hex_int(s: &str) -> Option<RefInt> {
    let (neg, body) = match s.strip_prefix('-') {
        Some(b) => (true, b),
        None => (false, s),
    };
    let mut n = Nat::zero();
    for ch in body.chars() {
        let d = ch.to_digit(16)?;
        n = n.shl(4).add(&Nat::from_u64(d as u64));
    }
    Some(RefInt::new(neg, n))
}

/// semantic spot checks on the std/release outcome so that "all flavours agree on a wrong
/// answer" is still caught for the feature-conditional routines
fn semantic(case: &Case, out: &str) -> Result<(), String> {
    match case.op.as_str() {
        "xs.root" => {
            let (neg, a) = case.z(0);
            let n = case.u(1) as u64;
            let x = RefInt::from_digits(neg, a);
            for (key, deg) in [("usqrt", 2u64), ("ucbrt", 3), ("unth", n)] {
                let v = expect_field(out, key)?;
                if deg == 0 {
                    if v != "PANIC" {
                        return Err(format!("{}: zeroth root returned {}", key, v));
                    }
                    continue;
                }
                let r = parse_hex_int(&v).ok_or_else(|| format!("{}: unparsable {}", key, v))?;
                crate::props::c11::root_predicate(&x.mag, deg, &r.mag).map_err(|e| format!("{} (std_all/release): {}", key, e))?;
            }
            Ok(())
        }
        "xs.radix" => {
            let (neg, a) = case.z(0);
            let r = case.u(1) as u32;
            let x = RefInt::from_digits(neg, a);
            let s = expect_field(out, "str")?;
            if s != x.to_string_radix(r) {
                return Err(format!("to_str_radix({}) = {} differs from the reference {}", r, trunc(&s, 200), trunc(&x.to_string_radix(r), 200)));
            }
            let p = expect_field(out, "parse")?;
            if parse_hex_int(&p).as_ref() != Some(&x) {
                return Err(format!("from_str_radix(to_str_radix(x)) = {} is not x", trunc(&p, 200)));
            }
            Ok(())
        }
        "xs.float" => {
            let (neg, a) = case.z(0);
            let x = RefInt::from_digits(neg, a);
            let want = format!("Some({})", x.to_f64().to_bits());
            let got = expect_field(out, "f64")?;
            if got != want {
                return Err(format!("to_f64 bits {} differ from the correctly rounded {}", got, want));
            }
            Ok(())
        }
        _ => Ok(()),
    }
}

fn check_xs(case: &Case) -> Verdict {
    // operations behind optional features exist only in the flavours built with them
    let only: &[&str] = if matches!(case.op.as_str(), "xs.serde" | "xs.rand") { &["std_all", "nostd_rs"] } else { &[] };
    let outs = flavours::run_all(case, only);
    let inproc = catch(|| nbcase::exec::exec(case)).map_err(|e| format!("in-process executor panicked: {}", e))?;
    let mut reference: Option<(String, String)> = None;
    for (name, r) in &outs {
        let o = match r {
            Ok(o) => o,
            Err(e) => return Err(format!("executor flavour {} failed on this case: {}", name, e)),
        };
        if o.starts_with("unsupported") || o.starts_with("parse-error") || o.starts_with("feature-off") {
            eprintln!("HARNESS-ERROR: executor {} says {}", name, o);
            std::process::exit(2);
        }
        match &reference {
            None => reference = Some((name.clone(), o.clone())),
            Some((n0, o0)) => {
                if o0 != o {
                    return Err(format!("configurations disagree: {} gives [{}] but {} gives [{}]", n0, trunc(o0, 600), name, trunc(o, 600)));
                }
            }
        }
    }
    let (n0, o0) = reference.ok_or("no executor flavour ran")?;
    if o0 != inproc {
        return Err(format!("configurations disagree: {} gives [{}] but the in-process std+all+hooks build gives [{}]", n0, trunc(&o0, 600), trunc(&inproc, 600)));
    }
    semantic(case, &o0)?;
    let cond = matches!(case.op.as_str(), "xs.radix" | "xs.root" | "xs.float" | "xs.fromf" | "xs.parse" | "xs.fmt" | "xs.serde" | "xs.rand");
    Ok(Info::new(cond).class(match case.op.as_str() {
        "xs.arith" => "arith",
        "xs.radix" => "radix (feature-conditional capacity estimates)",
        "xs.parse" => "parse",
        "xs.root" => "roots (feature-conditional initial guess)",
        "xs.float" => "to_float (powi from std or FloatCore)",
        "xs.fromf" => "from_float",
        "xs.shift" => "shift_pow_bits",
        "xs.fmt" => "formatting",
        "xs.modpow" => "modpow",
        "xs.bits" => "bit_updates_neg_inc_dec",
        "xs.bytes" => "byte_imports",
        "xs.euclid" => "euclid_ceil_egcd_multiples",
        "xs.serde" => "serde tokens (std+all vs no_std+rand+serde)",
        "xs.rand" => "random generation from a byte stream (std+all vs no_std+rand+serde)",
        _ => "prim",
    }))
}

impl Property for C16 {
    fn id(&self) -> &'static str {
        "C16"
    }
    fn rule(&self) -> &'static str {
        "Two domains. (1) Configurations, enumerated exhaustively by the driver: all 16 subsets of {rand,serde,quickcheck,arbitrary} with std and all 4 subsets of {rand,serde} without std, each in dev and release = 40 cargo builds of /repo's working tree (hooks off: the user-facing configuration); a compile error is a violation whose replay is the `build` case naming the configuration. (2) Inputs, generated: a cross-section of operations (arith, radix both directions around the capacity estimates, parsing, sqrt/cbrt/nth_root around 2^64 and 2^1024, to_f64/to_f32, from_f64, shifts/pow/bit queries, formatting flags, modpow/modinv, primitive conversions, bit updates, byte imports, Euclid/ceil/egcd, and - between the two flavours built with them and the in-process build - serde token streams and random generation from a generated byte stream) executed by 8 executor binaries (num-bigint with std+all features, std only, no_std+rand+serde, no_std; release and debug-assertion profiles) and in-process; all nine outcomes must be byte-identical, and the outcome is additionally checked against RefInt for roots, radix text and float rounding. Non-trivial: every build case; input cases that touch a feature-conditional routine (radix, roots, floats, parsing, formatting)."
    }
    fn technique(&self) -> &'static str {
        "exhaustive enumeration of the feature matrix (cargo build per configuration) + differential property-based testing (proptest) of 8 separately built executor flavours against each other and against RefInt"
    }
    fn strategy(&self, tier: Tier) -> BoxedStrategy<Case> {
        let big = match tier {
            Tier::Quick => 70usize,
            Tier::Thorough => 150,
        };
        let z = |ml: usize| gen::int(ml).prop_map(|(s, v)| Arg::Z(s, v));
        let radix_val = prop_oneof![
            50 => z(6),
            20 => z(big),
            // radix^k +- 1 : long runs in the output, digit counts at the capacity-estimate edge
            30 => (2u32..=36, 1u64..=200, -1i128..=1, any::<bool>()).prop_map(|(r, k, d, s)| {
                let v = RefInt::from_nat(Nat::from_u64(r as u64).pow(k)).add(&RefInt::from_i128(d));
                Arg::Z(s, v.mag.to_u64_digits())
            }),
        ];
        let root_val = prop_oneof![
            30 => z(3),
            30 => z(20),
            20 => (select(vec![63u64, 64, 65, 127, 128, 1022, 1023, 1024, 1025, 1026, 2047, 2048, 2100, 3000]), -2i128..=2).prop_map(|(k, d)| {
                Arg::Z(false, RefInt::from_nat(Nat::pow2(k)).add(&RefInt::from_i128(d)).mag.to_u64_digits())
            }),
            20 => (gen::nat(5), 2u64..=7, -1i128..=1).prop_map(|(r, n, d)| {
                let p = RefInt::from_nat(crate::lib_util::rn(&r).pow(n)).add(&RefInt::from_i128(d));
                Arg::Z(false, p.mag.to_u64_digits())
            }),
        ];
        let degree = prop_oneof![select(vec![1u128, 2, 3, 4, 5, 7, 10, 16, 63, 64, 65, 100, 1000]), (1u128..40)];
        prop_oneof![
            6 => (z(8), z(8)).prop_map(|(a, b)| Case::new("xs.arith", vec![a, b])),
            // divisions from the add-back / top-digit-equal families (a debug_assert-only correction would differ between profiles)
            6 => (any::<bool>(), any::<bool>(), gen::div_pair(12)).prop_map(|(sa, sb, (a, b))| Case::new("xs.arith", vec![Arg::Z(sa, a), Arg::Z(sb, b)])),
            25 => (radix_val, 2u128..=36, 2u128..=256).prop_map(|(a, r, r2)| Case::new("xs.radix", vec![a, Arg::U(r), Arg::U(r2)])),
            6 => ("[+-]?[0-9a-zA-Z_]{0,40}", 2u128..=36).prop_map(|(s, r)| Case::new("xs.parse", vec![Arg::S(s), Arg::U(r)])),
            22 => (root_val, degree).prop_map(|(a, n)| Case::new("xs.root", vec![a, Arg::U(n)])),
            12 => (any::<bool>(), prop_oneof![gen::nat(20), gen::nat(3)]).prop_map(|(s, a)| Case::new("xs.float", vec![Arg::Z(s, a)])),
            5 => any::<u64>().prop_map(|b| Case::new("xs.fromf", vec![Arg::U(b as u128)])),
            6 => (z(6), gen::shift_amount(6)).prop_map(|(a, k)| Case::new("xs.shift", vec![a, Arg::U(k as u128)])),
            6 => (z(4), 0u128..48).prop_map(|(a, w)| Case::new("xs.fmt", vec![a, Arg::U(w)])),
            3 => (z(4), gen::nat(2), z(3)).prop_map(|(a, e, m)| Case::new("xs.modpow", vec![a, Arg::N(e), m])),
            // Montgomery edge family: modulus B^n - small / all-ones, base just below it
            4 => (1usize..=3, 1u64..=3, 1u64..=3, gen::nat(1), any::<bool>()).prop_map(|(n, dm, db, e, sm)| {
                let m = Nat::pow2(64 * n as u64).sub(&Nat::from_u64(2 * dm - 1));
                let b = m.sub(&Nat::from_u64(db));
                Case::new("xs.modpow", vec![Arg::Z(false, b.to_u64_digits()), Arg::N(e), Arg::Z(sm, m.to_u64_digits())])
            }),
            4 => z(3).prop_map(|a| Case::new("xs.prim", vec![a])),
            8 => (prop_oneof![70 => Just(true), 30 => Just(false)], crate::props::c07::bit_nat(5), any::<u8>(), any::<u64>()).prop_map(|(s, a, sel, off)| {
                let i = crate::props::c07::bit_index(&a, sel % 10, off, 0);
                Case::new("xs.bits", vec![Arg::Z(s, a), Arg::U(i as u128)])
            }),
            3 => proptest::collection::vec(prop_oneof![select(vec![0u8, 0x7f, 0x80, 0xff]), any::<u8>()], 0..24).prop_map(|b| Case::new("xs.bytes", vec![Arg::B(b)])),
            4 => (z(5), z(3)).prop_map(|(a, b)| Case::new("xs.euclid", vec![a, b])),
            // feature-gated operations: serde tokens and random generation from a byte stream, std vs no_std builds
            3 => (z(4), 0u128..4).prop_map(|(a, p)| Case::new("xs.serde", vec![a, Arg::U(p)])),
            3 => (proptest::collection::vec(prop_oneof![select(vec![0u8, 0xff]), any::<u8>()], 0..40), any::<u64>(), 0u128..300, z(2), z(2))
                .prop_map(|(p, s, n, lo, hi)| Case::new("xs.rand", vec![Arg::B(p), Arg::U(s as u128), Arg::U(n), lo, hi])),
        ]
        .boxed()
    }
    fn check(&self, c: &Case) -> Verdict {
        match c.op.as_str() {
            "build" => build_config(c.s(0), c.s(1)),
            _ => check_xs(c),
        }
    }
    fn budget(&self, tier: Tier) -> Budget {
        // the executors themselves carry both profiles; the driver binary only needs to run once
        if std::env::var("VERIF_FLAVOURS_BROKEN").is_ok() {
            // the executors could not be built: only the configuration matrix (driver phase) runs
            return Budget { release: 0, dbg: 0, workers: 1 };
        }
        match tier {
            Tier::Quick => Budget { release: 60_000, dbg: 0, workers: 6 },
            Tier::Thorough => Budget { release: 8_000_000, dbg: 0, workers: 16 },
        }
    }
    fn driver_phase(&self, _ctx: &DriverCtx) -> Result<Vec<(String, J)>, (String, String)> {
        let m = matrix();
        let total = m.len();
        // group by feature set (shared target dir), run groups in parallel
        let mut groups: std::collections::BTreeMap<String, Vec<String>> = Default::default();
        for (f, p) in m {
            groups.entry(f).or_default().push(p);
        }
        let groups: Vec<(String, Vec<String>)> = groups.into_iter().collect();
        let results: std::sync::Mutex<Vec<(String, String, Result<(), String>)>> = Default::default();
        let next = std::sync::atomic::AtomicUsize::new(0);
        std::thread::scope(|s| {
            for _ in 0..8 {
                s.spawn(|| loop {
                    let i = next.fetch_add(1, std::sync::atomic::Ordering::SeqCst);
                    if i >= groups.len() {
                        break;
                    }
                    let (f, profs) = &groups[i];
                    for p in profs {
                        let r = build_config(f, p).map(|_| ());
                        results.lock().unwrap().push((f.clone(), p.clone(), r));
                    }
                });
            }
        });
        let results = results.into_inner().unwrap();
        let mut built = vec![];
        for (f, p, r) in &results {
            match r {
                Ok(()) => built.push(J::Str(format!("[{}] {}", f, p))),
                Err(m) => {
                    let case = Case::new("build", vec![Arg::S(f.clone()), Arg::S(p.clone())]);
                    return Err((case.to_text(), m.clone()));
                }
            }
        }
        Ok(vec![
            ("configurations_built".to_string(), J::Int(built.len() as i64)),
            ("configurations_total".to_string(), J::Int(total as i64)),
            ("configuration_matrix_exhaustive".to_string(), J::Bool(built.len() == total)),
            ("configurations".to_string(), J::Arr(built)),
        ])
    }
    fn assumptions(&self) -> Vec<String> {
        vec![
            "only the x86_64 / 64-bit-digit target can be built and run in this sandbox".into(),
            "the executor crate itself links std; only num-bigint is built without std (its no_std code paths are what the property is about)".into(),
        ]
    }
}
