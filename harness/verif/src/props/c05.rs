//! C05 — modular exponentiation and modular inverse are exact for every modulus.
use crate::engine::*;
use crate::gen::{self, MAX};
use crate::lib_util::*;
use crate::refint::{Nat, RefInt};
use nbcase::{Arg, Case};
use num_bigint::verif_probe::Probe;
use proptest::collection::vec;
use proptest::prelude::*;
use proptest::sample::select;

pub struct C05;

fn modpow_u(b: &[u64], e: &[u64], m: &[u64]) -> Verdict {
    let (x, y, z) = (bu(b), bu(e), bu(m));
    let (rb, re, rm) = (rn(b), rn(e), rn(m));
    if rm.is_zero() {
        must_panic("BigUint::modpow with zero modulus", || x.modpow(&y, &z))?;
        return Ok(Info::new(true).class("zero_modulus"));
    }
    let want = rb.modpow(&re, &rm);
    let got = must_return("BigUint::modpow", || x.modpow(&y, &z))?;
    ctx(eq_bu(&got, &want), "BigUint::modpow")?;
    let bm = rb.rem(&rm);
    let nt = !rm.is_one() && re.bits() >= 2 && !bm.is_zero() && !bm.is_one();
    Ok(Info::new(nt)
        .class("modpow_biguint")
        .class_if(rm.is_odd(), "odd_modulus")
        .class_if(!rm.is_odd(), "even_modulus")
        .class_if(rm.is_one(), "modulus_one")
        .class_if(re.is_zero(), "exponent_zero")
        .class_if(!rb.lt(&rm), "base_ge_modulus")
        .class_if(rb.to_u64_digits().len() > rm.to_u64_digits().len(), "base_longer_than_modulus"))
}

fn modpow_i(sb: bool, b: &[u64], se: bool, e: &[u64], sm: bool, m: &[u64]) -> Verdict {
    let (x, y, z) = (bi(sb, b), bi(se, e), bi(sm, m));
    let (rb, re, rm) = (ri(sb, b), ri(se, e), ri(sm, m));
    if re.neg {
        must_panic("BigInt::modpow with negative exponent", || x.modpow(&y, &z))?;
        return Ok(Info::new(true).class("negative_exponent"));
    }
    if rm.is_zero() {
        must_panic("BigInt::modpow with zero modulus", || x.modpow(&y, &z))?;
        return Ok(Info::new(true).class("zero_modulus"));
    }
    // |b|^e mod |m|, then the sign of b^e, then the floor-mod representative w.r.t. m
    let r0 = rb.mag.modpow(&re.mag, &rm.mag);
    let v = RefInt::new(rb.neg && re.mag.is_odd(), r0);
    let want = v.divrem_floor(&rm).1;
    let got = must_return("BigInt::modpow", || x.modpow(&y, &z))?;
    ctx(eq_bi(&got, &want), "BigInt::modpow")?;
    let nt = !rm.mag.is_one() && re.mag.bits() >= 2 && !want.is_zero();
    Ok(Info::new(nt)
        .class("modpow_bigint")
        .class_if(rm.neg, "negative_modulus")
        .class_if(rb.neg && re.mag.is_odd(), "negative_power")
        .class_if(rm.mag.is_one(), "modulus_pm_one"))
}

fn modinv_u(b: &[u64], m: &[u64]) -> Verdict {
    let (x, z) = (bu(b), bu(m));
    let (rb, rm) = (rn(b), rn(m));
    if rm.is_zero() {
        must_panic("BigUint::modinv with zero modulus", || x.modinv(&z))?;
        return Ok(Info::new(true).class("zero_modulus"));
    }
    let g = rb.gcd(&rm);
    let got = must_return("BigUint::modinv", || x.modinv(&z))?;
    match got {
        None => {
            if g.is_one() {
                return Err("BigUint::modinv returned None although gcd(b, m) = 1".into());
            }
        }
        Some(v) => {
            let nv = nat_of_bu(&v);
            ctx(eq_bu(&v, &nv), "BigUint::modinv result")?;
            if !g.is_one() {
                return Err(format!("BigUint::modinv returned Some(0x{}) although gcd(b, m) != 1", nv.to_string_radix(16, false)));
            }
            if !nv.lt(&rm) {
                return Err(format!("BigUint::modinv result 0x{} is not in [0, m)", nv.to_string_radix(16, false)));
            }
            // b*x = 1 (mod m):  (b*x) mod m == 1 mod m
            if rb.mul(&nv).rem(&rm) != Nat::one().rem(&rm) {
                return Err(format!("BigUint::modinv result 0x{} does not satisfy b*x = 1 (mod m)", nv.to_string_radix(16, false)));
            }
        }
    }
    Ok(Info::new(g.is_one() && rm.bits() > 64 && !rb.rem(&rm).is_one())
        .class("modinv_biguint")
        .class_if(g.is_one(), "coprime")
        .class_if(!g.is_one(), "not_coprime")
        .class_if(rm.is_one(), "modulus_one"))
}

fn modinv_i(sb: bool, b: &[u64], sm: bool, m: &[u64]) -> Verdict {
    let (x, z) = (bi(sb, b), bi(sm, m));
    let (rb, rm) = (ri(sb, b), ri(sm, m));
    if rm.is_zero() {
        must_panic("BigInt::modinv with zero modulus", || x.modinv(&z))?;
        return Ok(Info::new(true).class("zero_modulus"));
    }
    let g = rb.mag.gcd(&rm.mag);
    let got = must_return("BigInt::modinv", || x.modinv(&z))?;
    match got {
        None => {
            if g.is_one() {
                return Err("BigInt::modinv returned None although gcd(b, m) = 1".into());
            }
        }
        Some(v) => {
            let nv = ref_of_bi(&v);
            ctx(eq_bi(&v, &nv), "BigInt::modinv result")?;
            if !g.is_one() {
                return Err(format!("BigInt::modinv returned Some({}) although gcd(b, m) != 1", nv.hex()));
            }
            // documented interval: [0, m) for m > 0, (m, 0] for m < 0
            let in_iv = if rm.neg {
                (nv.is_zero() || nv.neg) && nv.mag.lt(&rm.mag)
            } else {
                !nv.neg && nv.mag.lt(&rm.mag)
            };
            if !in_iv {
                return Err(format!(
                    "BigInt::modinv result {} is outside the documented interval {} for modulus {}",
                    nv.hex(),
                    if rm.neg { "(m, 0]" } else { "[0, m)" },
                    rm.hex()
                ));
            }
            // b*x - 1 divisible by m
            let t = rb.mul(&nv).sub(&RefInt::one());
            if !t.mag.rem(&rm.mag).is_zero() {
                return Err(format!("BigInt::modinv result {} does not satisfy b*x = 1 (mod m)", nv.hex()));
            }
        }
    }
    Ok(Info::new(g.is_one() && rm.mag.bits() > 64)
        .class("modinv_bigint")
        .class_if(g.is_one(), "coprime")
        .class_if(rm.mag.is_one(), "modulus_pm_one")
        .class_if(rb.neg != rm.neg, "signs_differ"))
}

fn modulus(max_len: usize) -> BoxedStrategy<Vec<u64>> {
    // top digit classes x odd/even low digit
    let top = prop_oneof![
        select(vec![1u64, 2, 3, 5, 1 << 32, 1 << 63, (1 << 63) + 1, MAX - 2, MAX - 1, MAX]),
        gen::digit().prop_map(|d| d | 1),
    ];
    prop_oneof![
        70 => (vec(gen::digit(), 0..max_len), top, any::<bool>(), any::<bool>()).prop_map(|(mut v, t, odd, setlow)| {
            v.push(t);
            if setlow { if odd { v[0] |= 1; } else { v[0] &= !1; } }
            let v = gen::trim(v);
            if v.is_empty() { vec![2] } else { v }
        }),
        5 => Just(vec![1u64]),
        10 => gen::nat_nonzero(max_len),
        // powers of two and 2^k +- 1
        15 => (1u64..=(max_len as u64 * 64 - 1), -1i64..=1).prop_map(|(k, d)| {
            RefInt::from_nat(Nat::pow2(k)).add(&RefInt::from_i128(d as i128)).mag.to_u64_digits()
        }).prop_map(|v| if v.is_empty() { vec![1] } else { v }),
    ]
    .boxed()
}

fn exponent() -> BoxedStrategy<Vec<u64>> {
    prop_oneof![
        15 => select(vec![vec![], vec![1u64], vec![2], vec![3], vec![4], vec![15], vec![16], vec![17], vec![MAX], vec![0, 1], vec![0, 0, 1], vec![0xF000_0000_0000_000F], vec![0, 0xF0]]),
        10 => (0u32..200).prop_map(|k| Nat::pow2(k as u64).to_u64_digits()),
        30 => any::<u16>().prop_map(|x| vec![x as u64]),
        15 => any::<u64>().prop_map(|x| gen::trim(vec![x])),
        // 4-bit windows that are zero
        15 => vec(select(vec![0u64, 1, 8, 15]), 1..=24).prop_map(|w| {
            let mut d = vec![0u64; (w.len() + 15) / 16];
            for (i, x) in w.iter().enumerate() { d[i / 16] |= x << (4 * (i % 16)); }
            gen::trim(d)
        }),
        10 => gen::nat(2),
        // several zero low digits (the even-modulus path squares once per skipped bit; counts above 255 matter)
        10 => (0usize..=7, prop_oneof![Just(vec![1u64]), Just(vec![3u64]), Just(vec![1u64 << 63]), gen::nat_nonzero(1), Just(vec![0u64, 1])]).prop_map(|(z, hi)| {
            let mut v = vec![0u64; z]; v.extend(hi); gen::trim(v)
        }),
    ]
    .boxed()
}

fn modpow_triple(ml: usize) -> BoxedStrategy<(Vec<u64>, Vec<u64>, Vec<u64>)> {
    prop_oneof![
        // exponents of 3..5 digits with moduli of every size (multi-digit outer loops of both modpow paths)
        4 => (gen::nat(ml + 1), gen::nat_range(3, 5), modulus(ml)),
        // long exponents (beyond 2048 bits) with a short modulus, so the reference stays cheap
        2 => (gen::nat(3), gen::big_nat(vec![31, 32, 33, 34, 40]), modulus(2)),
        // independent base
        40 => (gen::nat(ml + 2), exponent(), modulus(ml)),
        // base >= m with equal length: m + small, B^n - small
        20 => (modulus(ml), exponent(), 0u64..4, any::<bool>()).prop_map(|(m, e, s, up)| {
            let n = m.len();
            let b = if up {
                rn(&m).add(&Nat::from_u64(s)).to_u64_digits()
            } else {
                Nat::pow2(64 * n as u64).sub(&Nat::from_u64(s + 1)).to_u64_digits()
            };
            (b, e, m)
        }),
        // Montgomery final-subtraction family: small top digit odd modulus, base = B^n - small
        25 => (vec(gen::digit(), 0..ml), select(vec![1u64, 2, 3, 7]), exponent(), 1u64..6).prop_map(|(mut v, t, e, s)| {
            v.push(t);
            v[0] |= 1;
            let n = v.len();
            let b = Nat::pow2(64 * n as u64).sub(&Nat::from_u64(s)).to_u64_digits();
            (b, e, v)
        }),
        // base 0, 1, m-1, m, multiples of m
        15 => (modulus(ml), exponent(), 0u8..5).prop_map(|(m, e, k)| {
            let rm = rn(&m);
            let b = match k {
                0 => Nat::zero(),
                1 => Nat::one(),
                2 => rm.sub(&Nat::one()),
                3 => rm.clone(),
                _ => rm.mul(&Nat::from_u64(3)),
            };
            (b.to_u64_digits(), e, m)
        }),
    ]
    .boxed()
}

fn modinv_pair(ml: usize) -> BoxedStrategy<(Vec<u64>, Vec<u64>)> {
    prop_oneof![
        30 => (gen::nat(ml + 1), modulus(ml)),
        // known common factor g: b = g*u, m = g*v
        35 => (gen::nat_nonzero(2), gen::nat(ml), gen::nat_nonzero(ml)).prop_map(|(g, u, v)| {
            let g = rn(&g);
            (g.mul(&rn(&u)).to_u64_digits(), g.mul(&rn(&v)).to_u64_digits())
        }),
        // b = k*m + {0, 1, m-1}
        20 => (modulus(ml), gen::nat(1), 0u8..3).prop_map(|(m, k, w)| {
            let rm = rn(&m);
            let r = match w { 0 => Nat::zero(), 1 => Nat::one(), _ => rm.sub(&Nat::one()) };
            (rn(&k).mul(&rm).add(&r).to_u64_digits(), m)
        }),
        // modulus one
        10 => gen::nat(3).prop_map(|b| (b, vec![1u64])),
        // consecutive Fibonacci numbers: coprime, all Euclid quotients 1 (the longest chain for the size)
        5 => (2usize..=360, any::<bool>()).prop_map(|(k, swap)| {
            let (mut f0, mut f1) = (Nat::one(), Nat::one());
            for _ in 0..k { let t = f0.add(&f1); f0 = f1; f1 = t; }
            if swap { (f1.to_u64_digits(), f0.to_u64_digits()) } else { (f0.to_u64_digits(), f1.to_u64_digits()) }
        }),
    ]
    .boxed()
}

impl Property for C05 {
    fn id(&self) -> &'static str {
        "C05"
    }
    fn rule(&self) -> &'static str {
        "Cases: modpow.u / modpow.i (base, exponent, modulus) and modinv.u / modinv.i (base, modulus). Moduli have 1..6 digits (quick) / ..24 (thorough) with top digit in {1,2,3,5,2^32,2^63,2^63+1,MAX-2..MAX, random}, forced odd or even, 1, and 2^k+{-1,0,1}; bases are independent, m+small, B^n-small (equal length, >= m), the small-top-digit-modulus x base=B^n-small family for the Montgomery final subtraction, 0, 1, m-1, m, 3m; exponents 0,1,2, 2^k, 4-bit windows that are zero, 0..7 zero low digits, random, and 31..40-digit exponents (beyond 2048 bits) over 1-2 digit moduli. BigInt adds all sign combinations, negative exponents and m = +-1; zero modulus is generated for the panic clause. Oracles: RefInt square-and-multiply with self-checked division reduced to the floor-mod representative; modinv by the validity predicate (Some iff reference gcd = 1, b*x = 1 mod m, x in the documented interval). Non-trivial: m >= 2, e >= 2, b mod m not in {0,1} (modpow); coprime with m above 64 bits (modinv); or a documented-failure case."
    }
    fn strategy(&self, tier: Tier) -> BoxedStrategy<Case> {
        let ml = match tier {
            Tier::Quick => 6,
            Tier::Thorough => 24,
        };
        let zero_m = |p: BoxedStrategy<Vec<u64>>| prop_oneof![97 => p, 3 => Just(vec![])];
        let mp_u = modpow_triple(ml).prop_map(|(b, e, m)| Case::new("modpow.u", vec![Arg::N(b), Arg::N(e), Arg::N(m)]));
        let mp_u0 = (gen::nat(3), exponent()).prop_map(|(b, e)| Case::new("modpow.u", vec![Arg::N(b), Arg::N(e), Arg::N(vec![])]));
        let mp_i = (any::<bool>(), prop_oneof![95 => Just(false), 5 => Just(true)], any::<bool>(), modpow_triple(ml), prop_oneof![97 => Just(false), 3 => Just(true)])
            .prop_map(|(sb, se, sm, (b, e, m), zm)| {
                let m = if zm { vec![] } else { m };
                Case::new("modpow.i", vec![Arg::Z(sb, b), Arg::Z(se, e), Arg::Z(sm, m)])
            });
        let mi_u = (modinv_pair(ml)).prop_map(|(b, m)| Case::new("modinv.u", vec![Arg::N(b), Arg::N(m)]));
        let mi_u0 = gen::nat(3).prop_map(|b| Case::new("modinv.u", vec![Arg::N(b), Arg::N(vec![])]));
        let mi_i = (any::<bool>(), any::<bool>(), modinv_pair(ml), zero_m(Just(vec![1u64]).boxed()))
            .prop_map(|(sb, sm, (b, m), z)| {
                let m = if z.is_empty() { vec![] } else { m };
                Case::new("modinv.i", vec![Arg::Z(sb, b), Arg::Z(sm, m)])
            });
        prop_oneof![30 => mp_u, 1 => mp_u0, 29 => mp_i, 17 => mi_u, 1 => mi_u0, 22 => mi_i].boxed()
    }
    fn check(&self, c: &Case) -> Verdict {
        match c.op.as_str() {
            "modpow.u" => modpow_u(c.n(0), c.n(1), c.n(2)),
            "modpow.i" => {
                let (sb, b) = c.z(0);
                let (se, e) = c.z(1);
                let (sm, m) = c.z(2);
                modpow_i(sb, b, se, e, sm, m)
            }
            "modinv.u" => modinv_u(c.n(0), c.n(1)),
            "modinv.i" => {
                let (sb, b) = c.z(0);
                let (sm, m) = c.z(1);
                modinv_i(sb, b, sm, m)
            }
            o => Err(format!("unknown op {}", o)),
        }
    }
    fn budget(&self, tier: Tier) -> Budget {
        match tier {
            Tier::Quick => Budget { release: 1_200_000, dbg: 400_000, workers: 8 },
            Tier::Thorough => Budget { release: 12_000_000, dbg: 3_000_000, workers: 16 },
        }
    }
    fn probes(&self) -> Vec<Probe> {
        use Probe::*;
        vec![MONTY_MUL, MONTY_CARRY_SUB, MONTY_FINAL_SUB, MONTY_FINAL_REM, MONTY_BASE_PREREDUCE, MODPOW_EVEN, MODPOW_EVEN_ZERO_DIGIT]
    }
    fn assumptions(&self) -> Vec<String> {
        vec![
            "RefInt modpow (binary method over self-checked division) and gcd are cross-checked against CPython pow()/math.gcd".into(),
            "moduli up to 6 digits (quick) / 24 digits (thorough), exponents up to ~500 bits with every modulus size, up to 40 digits (2560 bits) with 1-2 digit moduli".into(),
        ]
    }
}
