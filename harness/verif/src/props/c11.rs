//! C11 — integer roots are the exact floor roots (std and no_std).
use crate::engine::*;
use crate::flavours;
use crate::gen;
use crate::lib_util::*;
use crate::refint::{Nat, RefInt};
use nbcase::{Arg, Case};
use num_bigint::verif_probe::Probe;
use proptest::prelude::*;
use proptest::sample::select;
use std::cmp::Ordering;

pub struct C11;

/// r^n <= x < (r+1)^n, evaluated with RefInt powers that stop as soon as they exceed bits(x)
pub fn root_predicate(x: &Nat, n: u64, r: &Nat) -> Result<(), String> {
    let xb = x.bits();
    match r.pow_bounded(n, xb) {
        None => return Err(format!("root 0x{} is too large: r^{} > x", trunc(&r.to_string_radix(16, false), 120), n)),
        Some(p) => {
            if p.cmp(x) == Ordering::Greater {
                return Err(format!("root 0x{} is too large: r^{} > x", trunc(&r.to_string_radix(16, false), 120), n));
            }
        }
    }
    let r1 = r.add(&Nat::one());
    if let Some(p) = r1.pow_bounded(n, xb) {
        if p.cmp(x) != Ordering::Greater {
            return Err(format!("root 0x{} is too small: (r+1)^{} <= x", trunc(&r.to_string_radix(16, false), 120), n));
        }
    }
    Ok(())
}

fn hex_nat(s: &str) -> Option<RefInt> {
    let (neg, body) = match s.strip_prefix('-') {
        Some(b) => (true, b),
        None => (false, s),
    };
    let mut n = Nat::zero();
    for ch in body.chars() {
        n = n.shl(4).add(&Nat::from_u64(ch.to_digit(16)? as u64));
    }
    Some(RefInt::new(neg, n))
}

fn check_root(neg: bool, a: &[u64], n: u32) -> Verdict {
    let x = bi(neg, a);
    let u = bu(a);
    let r = ri(neg, a);
    // ---- BigUint, in-process (std) ----
    let s2 = must_return("BigUint::sqrt", || u.sqrt())?;
    ctx(root_predicate(&r.mag, 2, &nat_of_bu(&s2)), "BigUint::sqrt")?;
    ctx(eq_bu(&s2, &nat_of_bu(&s2)), "BigUint::sqrt")?;
    let s3 = must_return("BigUint::cbrt", || u.cbrt())?;
    ctx(root_predicate(&r.mag, 3, &nat_of_bu(&s3)), "BigUint::cbrt")?;
    let sn = if n == 0 {
        must_panic("BigUint::nth_root(0)", || u.nth_root(0))?;
        None
    } else {
        let v = must_return("BigUint::nth_root", || u.nth_root(n))?;
        ctx(root_predicate(&r.mag, n as u64, &nat_of_bu(&v)), &format!("BigUint::nth_root({})", n))?;
        ctx(eq_bu(&v, &nat_of_bu(&v)), "BigUint::nth_root canonical")?;
        Some(v)
    };
    // the Roots trait methods (generic callers) must agree with the inherent ones
    {
        use num_integer::Roots;
        ctx(must_return("Roots::sqrt", || Roots::sqrt(&u)).and_then(|v| eq_bu(&v, &nat_of_bu(&s2))), "<BigUint as Roots>::sqrt")?;
        ctx(must_return("Roots::cbrt", || Roots::cbrt(&u)).and_then(|v| eq_bu(&v, &nat_of_bu(&s3))), "<BigUint as Roots>::cbrt")?;
        match &sn {
            Some(v0) => ctx(must_return("Roots::nth_root", || Roots::nth_root(&u, n)).and_then(|v| eq_bu(&v, &nat_of_bu(v0))), "<BigUint as Roots>::nth_root")?,
            None => must_panic("<BigUint as Roots>::nth_root(0)", || Roots::nth_root(&u, 0))?,
        }
        if r.neg {
            must_panic("<BigInt as Roots>::sqrt of a negative", || Roots::sqrt(&x))?;
        } else {
            ctx(must_return("Roots::sqrt", || Roots::sqrt(&x)).and_then(|v| eq_bi(&v, &RefInt::from_nat(nat_of_bu(&s2)))), "<BigInt as Roots>::sqrt")?;
        }
        ctx(must_return("Roots::cbrt", || Roots::cbrt(&x)).and_then(|v| eq_bi(&v, &RefInt::new(r.neg, nat_of_bu(&s3)))), "<BigInt as Roots>::cbrt")?;
    }
    // ---- BigInt ----
    let signed = |deg: u32, got: Result<num_bigint::BigInt, String>, what: &str| -> Result<(), String> {
        // only called when the documented domain allows a result
        let v = got?;
        let rv = ref_of_bi(&v);
        ctx(eq_bi(&v, &rv), what)?;
        if r.neg {
            // odd degree: negated root of |x|
            if !(rv.neg || rv.is_zero()) {
                return Err(format!("{}: root of a negative number is positive", what));
            }
        } else if rv.neg {
            return Err(format!("{}: root of a non-negative number is negative", what));
        }
        ctx(root_predicate(&r.mag, deg as u64, &rv.mag), what)
    };
    if r.neg {
        must_panic("BigInt::sqrt of a negative", || x.sqrt())?;
    } else {
        signed(2, must_return("BigInt::sqrt", || x.sqrt()), "BigInt::sqrt")?;
    }
    signed(3, must_return("BigInt::cbrt", || x.cbrt()), "BigInt::cbrt")?;
    if n == 0 {
        must_panic("BigInt::nth_root(0)", || x.nth_root(0))?;
    } else if r.neg && n % 2 == 0 {
        must_panic("BigInt::nth_root(even) of a negative", || x.nth_root(n))?;
    } else {
        signed(n, must_return("BigInt::nth_root", || x.nth_root(n)), &format!("BigInt::nth_root({})", n))?;
    }
    // ---- the same case in the no_std build (release and debug-assertion executors) ----
    let xs = Case::new("xs.root", vec![Arg::Z(neg, a.to_vec()), Arg::U(n as u128)]);
    for (name, out) in flavours::run_all(&xs, &["nostd"]) {
        let out = out.map_err(|e| format!("no_std executor {} failed on this case: {}", name, e))?;
        for (key, deg, std_val) in [("usqrt", 2u64, Some(&s2)), ("ucbrt", 3, Some(&s3)), ("unth", n as u64, sn.as_ref())] {
            let f = nbcase::exec::field(&out, key).ok_or_else(|| format!("executor outcome lacks {}", key))?;
            match std_val {
                None => {
                    if f != "PANIC" {
                        return Err(format!("no_std ({}) nth_root(0) returned {} instead of panicking", name, f));
                    }
                }
                Some(sv) => {
                    let v = hex_nat(f).ok_or_else(|| format!("no_std ({}) {} = {} where std returns a value", name, key, f))?;
                    ctx(root_predicate(&r.mag, deg, &v.mag), &format!("no_std ({}) {}", name, key))?;
                    if v.mag != nat_of_bu(sv) {
                        return Err(format!("std and no_std ({}) disagree on {}: {} vs {}", name, key, sv, f));
                    }
                }
            }
        }
        // signed results: cbrt and nth_root of the BigInt in the no_std build against the in-process ones
        let want_cbrt = format!("{:x}", x.cbrt());
        let f = nbcase::exec::field(&out, "cbrt").unwrap_or("");
        if f != want_cbrt {
            return Err(format!("std and no_std ({}) disagree on BigInt::cbrt: {} vs {}", name, want_cbrt, f));
        }
        let want_nth = if n == 0 || (r.neg && n % 2 == 0) { "PANIC".to_string() } else { format!("{:x}", x.nth_root(n)) };
        let f = nbcase::exec::field(&out, "nth").unwrap_or("");
        if f != want_nth {
            return Err(format!("std and no_std ({}) disagree on BigInt::nth_root({}): {} vs {}", name, n, want_nth, f));
        }
        let want_sqrt = if r.neg { "PANIC".to_string() } else { format!("{:x}", x.sqrt()) };
        let f = nbcase::exec::field(&out, "sqrt").unwrap_or("");
        if f != want_sqrt {
            return Err(format!("std and no_std ({}) disagree on BigInt::sqrt: {} vs {}", name, want_sqrt, f));
        }
    }
    let bits = r.mag.bits();
    let nt = bits > 64 && n >= 2 && (n as u64) < bits;
    Ok(Info::new(nt)
        .class_if(bits <= 64, "fits_u64")
        .class_if(bits > 64 && bits <= 1024, "f64_guess_range")
        .class_if(bits > 1024, "above_2^1024")
        .class_if(n as u64 >= bits && n > 0, "degree_ge_bit_length")
        .class_if(r.neg, "negative")
        .class_if(n == 0, "zeroth_root")
        .class_if(r.neg, "even_root_of_negative")
        .class_if(n > 100 && (n as u64) < bits, "degree_between_100_and_bit_length")
        .class_if(n >= 1000, "huge_degree"))
}

impl Property for C11 {
    fn id(&self) -> &'static str {
        "C11"
    }
    fn rule(&self) -> &'static str {
        "Cases (root x n): x below 2^64, up to 2^1024, and beyond (to ~2^6000 quick / ~2^40000 thorough), perfect powers r^n and r^n+-1, 2^k+-d around 64/128/1023..1026/2048 bits, x with bit length n-1/n/n+1; degrees {0,1,2,3,4,5,7,10,16,63,64,65,100,10^6,u32::MAX, bits+-1, random small}; negative BigInt with odd and even n. Each case runs sqrt, cbrt and nth_root(n) of BigUint and BigInt in-process (std, f64 initial guesses) and in the no_std executor (power-of-two guesses; release and debug-assertion builds); every result must satisfy r^n <= x < (r+1)^n in RefInt (sign rule for negatives), std and no_std must agree, and even roots of negatives / n = 0 must panic. Non-trivial: x >= 2^64 and 2 <= n < bits(x)."
    }
    fn technique(&self) -> &'static str {
        "property-based testing (proptest) with a unique-solution validity predicate r^n <= x < (r+1)^n in RefInt, plus differential execution std vs no_std builds"
    }
    fn strategy(&self, tier: Tier) -> BoxedStrategy<Case> {
        let big = match tier {
            Tier::Quick => 90usize,
            Tier::Thorough => 620,
        };
        let degree = prop_oneof![
            40 => select(vec![0u32, 1, 2, 3, 4, 5, 7, 10, 16, 63, 64, 65, 100, 1_000_000, u32::MAX]),
            60 => 1u32..48,
        ];
        let x = prop_oneof![
            10 => gen::nat(1),
            15 => gen::nat(3),
            20 => gen::nat(16),
            10 => gen::nat(big),
            10 => gen::big_nat(vec![17, 18, 33, 40, big.min(64), big]),
            15 => (select(vec![63u64, 64, 65, 127, 128, 129, 1021, 1022, 1023, 1024, 1025, 1026, 1027, 2047, 2048, 2049, 3000, 4097]), -2i128..=2).prop_map(|(k, d)| {
                RefInt::from_nat(Nat::pow2(k)).add(&RefInt::from_i128(d)).mag.to_u64_digits()
            }),
        ];
        // perfect powers r^n + d with the same n as degree
        let perfect = (gen::nat(6), 2u32..=12, -1i128..=1, any::<bool>()).prop_map(|(r, n, d, neg)| {
            let p = RefInt::from_nat(rn(&r).pow(n as u64)).add(&RefInt::from_i128(d));
            Case::new("root", vec![Arg::Z(neg && n % 2 == 1 || neg && d == 0, p.mag.to_u64_digits()), Arg::U(n as u128)])
        });
        // bit length n-1, n, n+1
        let nearbits = (3u32..400, -1i64..=1, any::<u64>()).prop_map(|(n, d, low)| {
            let bits = (n as i64 + d).max(1) as u64;
            let v = Nat::pow2(bits - 1).add(&Nat::from_u64(low).shr(64u64.saturating_sub(bits - 1).min(64)));
            let v = if v.bits() != bits { Nat::pow2(bits - 1) } else { v };
            Case::new("root", vec![Arg::Z(false, v.to_u64_digits()), Arg::U(n as u128)])
        });
        // degrees in the band between ~100 and the bit length: n = bits(x) / k (large degree, root of a few bits)
        let band = (gen::big_nat(vec![17, 20, 33, 40, big.min(64), big.min(200)]), 2u64..=24, -1i64..=1, any::<bool>()).prop_map(|(a, k, d, neg)| {
            let bits = Nat::from_u64_digits(&a).bits();
            let n = ((bits / k) as i64 + d).clamp(1, u32::MAX as i64) as u128;
            Case::new("root", vec![Arg::Z(neg && n % 2 == 1, a), Arg::U(n)])
        });
        prop_oneof![
            10 => band,
            50 => (prop_oneof![85 => Just(false), 15 => Just(true)], x, degree).prop_map(|(s, a, n)| Case::new("root", vec![Arg::Z(s, a), Arg::U(n as u128)])),
            25 => perfect,
            15 => nearbits,
        ]
        .boxed()
    }
    fn check(&self, c: &Case) -> Verdict {
        match c.op.as_str() {
            "root" => {
                let (s, a) = c.z(0);
                check_root(s, a, c.u(1) as u32)
            }
            o => Err(format!("unknown op {}", o)),
        }
    }
    fn budget(&self, tier: Tier) -> Budget {
        match tier {
            Tier::Quick => Budget { release: 240_000, dbg: 80_000, workers: 8 },
            Tier::Thorough => Budget { release: 3_000_000, dbg: 750_000, workers: 16 },
        }
    }
    fn probes(&self) -> Vec<Probe> {
        use Probe::*;
        vec![ROOT_U64_FAST, ROOT_F64_GUESS, ROOT_SCALED_GUESS, ROOT_POW2_GUESS, ROOT_FIX_CLIMB, ROOT_FIX_SATURATE, ROOT_FIX_DESCEND]
    }
    fn assumptions(&self) -> Vec<String> {
        vec![
            "RefInt pow/cmp are correct (cross-checked against CPython)".into(),
            "the no_std executor links std itself; only num-bigint is built with default-features = false".into(),
            "probe counters are from the in-process std build only".into(),
        ]
    }
}
