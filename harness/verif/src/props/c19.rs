//! C19 — sign, negation and identity helpers agree with the integer value.
use crate::engine::*;
use crate::gen;
use crate::lib_util::*;
use crate::refint::{Nat, RefInt};
use nbcase::{Arg, Case};
use num_bigint::{BigInt, BigUint, Sign, ToBigInt, ToBigUint};
use num_traits::{One, Signed, Zero};
use proptest::prelude::*;

pub struct C19;

fn sign_of(i: i128) -> Sign {
    match i {
        0 => Sign::NoSign,
        x if x > 0 => Sign::Plus,
        _ => Sign::Minus,
    }
}
fn sign_num(s: Sign) -> i32 {
    match s {
        Sign::Minus => -1,
        Sign::NoSign => 0,
        Sign::Plus => 1,
    }
}

/// value-level helpers on one BigInt reached through a small capacity-bearing history
fn value_case(neg: bool, a: &[u64], grow: u64) -> Verdict {
    let r = ri(neg, a);
    // reach the value through an in-place history whose predecessor had larger capacity
    let x = if grow > 0 {
        let mut t = bi(neg, a);
        t <<= grow;
        t >>= grow;
        t
    } else {
        bi(neg, a)
    };
    ctx(eq_bi(&x, &r), "value after grow/shrink history")?;
    let want_sign = sign_of(r.signum() as i128);
    if x.sign() != want_sign {
        return Err(format!("sign() = {:?} want {:?}", x.sign(), want_sign));
    }
    ctx(eq_bu(x.magnitude(), &r.mag), "magnitude()")?;
    ctx(must_return("-&x", || -&x).and_then(|v| eq_bi(&v, &r.neg())), "Neg for &BigInt")?;
    ctx(must_return("-x", || -x.clone()).and_then(|v| eq_bi(&v, &r.neg())), "Neg for BigInt")?;
    ctx(must_return("x + (-x)", || &x + (-&x)).and_then(|v| eq_bi(&v, &RefInt::zero())), "x + (-x)")?;
    ctx(must_return("abs", || x.abs()).and_then(|v| eq_bi(&v, &r.abs())), "abs")?;
    ctx(must_return("signum", || x.signum()).and_then(|v| eq_bi(&v, &RefInt::from_i128(r.signum() as i128))), "signum")?;
    if x.is_positive() != (r.signum() > 0) || x.is_negative() != (r.signum() < 0) {
        return Err(format!("is_positive/is_negative = {}/{} for signum {}", x.is_positive(), x.is_negative(), r.signum()));
    }
    if x.is_zero() != r.is_zero() || x.is_one() != (r == RefInt::one()) {
        return Err(format!("BigInt is_zero/is_one = {}/{}", x.is_zero(), x.is_one()));
    }
    let u = bu(a);
    if u.is_zero() != r.mag.is_zero() || u.is_one() != r.mag.is_one() {
        return Err(format!("BigUint is_zero/is_one = {}/{}", u.is_zero(), u.is_one()));
    }
    // into_parts / from_biguint inverse on canonical pairs
    let (s, m) = x.clone().into_parts();
    if s != want_sign {
        return Err(format!("into_parts sign {:?} want {:?}", s, want_sign));
    }
    ctx(eq_bu(&m, &r.mag), "into_parts magnitude")?;
    ctx(eq_bi(&BigInt::from_biguint(s, m), &r), "from_biguint(into_parts(x))")?;
    // to_biguint / to_bigint
    match (x.to_biguint(), r.neg) {
        (Some(v), false) => ctx(eq_bu(&v, &r.mag), "to_biguint")?,
        (None, true) => {}
        (g, _) => return Err(format!("to_biguint = {:?} for a value with negative={}", g, r.neg)),
    }
    // the same conversions through the traits (a generic `T: ToBigUint` caller does not reach the inherent method)
    match (ToBigUint::to_biguint(&x), r.neg) {
        (Some(v), false) => ctx(eq_bu(&v, &r.mag), "<BigInt as ToBigUint>::to_biguint")?,
        (None, true) => {}
        (g, _) => return Err(format!("<BigInt as ToBigUint>::to_biguint = {:?} for a value with negative={}", g, r.neg)),
    }
    match ToBigUint::to_biguint(&u) {
        Some(v) => ctx(eq_bu(&v, &r.mag), "<BigUint as ToBigUint>::to_biguint")?,
        None => return Err("<BigUint as ToBigUint>::to_biguint returned None".into()),
    }
    match ToBigInt::to_bigint(&x) {
        Some(v) => ctx(eq_bi(&v, &r), "<BigInt as ToBigInt>::to_bigint")?,
        None => return Err("<BigInt as ToBigInt>::to_bigint returned None".into()),
    }
    match (BigUint::try_from(&x), r.neg) {
        (Ok(v), false) => ctx(eq_bu(&v, &r.mag), "BigUint::try_from(&BigInt)")?,
        (Err(_), true) => {}
        (g, _) => return Err(format!("BigUint::try_from(&BigInt) = {:?} for a value with negative={}", g.is_ok(), r.neg)),
    }
    match (BigUint::try_from(x.clone()), r.neg) {
        (Ok(v), false) => ctx(eq_bu(&v, &r.mag), "BigUint::try_from(BigInt) by value")?,
        (Err(e), true) => {
            if e.into_original() != x {
                return Err("BigUint::try_from(BigInt): the error does not carry the original value".into());
            }
        }
        (g, _) => return Err(format!("BigUint::try_from(BigInt) by value = ok:{} for a value with negative={}", g.is_ok(), r.neg)),
    }
    match u.to_bigint() {
        Some(v) => ctx(eq_bi(&v, &r.abs()), "BigUint::to_bigint")?,
        None => return Err("BigUint::to_bigint returned None".into()),
    }
    match x.to_bigint() {
        Some(v) => ctx(eq_bi(&v, &r), "BigInt::to_bigint")?,
        None => return Err("BigInt::to_bigint returned None".into()),
    }
    ctx(eq_bi(&BigInt::from(u.clone()), &r.abs()), "BigInt::from(BigUint)")?;
    // set_zero / set_one on the object (capacity retained)
    ctx(must_return("set_zero", || { let mut t = x.clone(); t.set_zero(); t }).and_then(|v| eq_bi(&v, &RefInt::zero())), "BigInt::set_zero")?;
    ctx(must_return("set_one", || { let mut t = x.clone(); t.set_one(); t }).and_then(|v| eq_bi(&v, &RefInt::one())), "BigInt::set_one")?;
    ctx(must_return("set_zero", || { let mut t = u.clone(); t.set_zero(); t }).and_then(|v| eq_bu(&v, &Nat::zero())), "BigUint::set_zero")?;
    ctx(must_return("set_one", || { let mut t = u.clone(); t.set_one(); t }).and_then(|v| eq_bu(&v, &Nat::one())), "BigUint::set_one")?;
    // after set_zero the sign must be NoSign and equal to a fresh zero
    let mut t = x.clone();
    t.set_zero();
    if t.sign() != Sign::NoSign || t != BigInt::zero() {
        return Err("set_zero left a non-NoSign or unequal zero".into());
    }
    // clone_from onto objects with a different previous value (incl. a zero source over a non-zero target)
    for prev in [BigInt::from(0), BigInt::from(-7), bi(!neg, &[1, 2, 3])] {
        let mut t = prev.clone();
        t.clone_from(&x);
        ctx(eq_bi(&t, &r), "clone_from")?;
        if t.sign() != want_sign || t.magnitude().is_zero() != r.is_zero() {
            return Err("clone_from: sign()/magnitude() disagree with the cloned value".into());
        }
        let (ps, pm) = t.into_parts();
        if ps != want_sign {
            return Err("clone_from then into_parts: wrong sign".into());
        }
        ctx(eq_bu(&pm, &r.mag), "clone_from then into_parts magnitude")?;
    }
    // Mul<Sign>-free rule of signs on the value: x * signum(x) = |x|
    ctx(must_return("x * signum", || &x * x.signum()).and_then(|v| eq_bi(&v, &r.abs())), "x * signum(x) = |x|")?;
    Ok(Info::new(!r.is_zero())
        .class("value_helpers")
        .class_if(grow > 0, "predecessor_had_larger_capacity")
        .class_if(r.neg, "negative")
        .class_if(r.is_zero(), "zero")
        .class_if(r.mag.is_one(), "plus_minus_one"))
}

/// (Sign request, magnitude digits incl. redundant zeros) through from_biguint / new / from_slice
fn pair_case(sg: i128, a: &[u64]) -> Verdict {
    let s = sign_of(sg);
    let mag = rn(a);
    let want = if s == Sign::NoSign { RefInt::zero() } else { RefInt::new(s == Sign::Minus, mag.clone()) };
    ctx(must_return("from_biguint", || BigInt::from_biguint(s, bu(a))).and_then(|v| eq_bi(&v, &want)), "BigInt::from_biguint")?;
    // the same request through the u32-word constructors (digits may be all zero or carry redundant high zeros)
    let words: Vec<u32> = a.iter().flat_map(|d| [*d as u32, (*d >> 32) as u32]).collect();
    for (name, built) in [("BigInt::new", catch(|| BigInt::new(s, words.clone()))), ("BigInt::from_slice", catch(|| BigInt::from_slice(s, &words)))] {
        let built = built.map_err(|p| format!("{} panicked: {}", name, p))?;
        ctx(eq_bi(&built, &want), name)?;
        let ws0 = sign_of(want.signum() as i128);
        if built.sign() != ws0 || built.is_zero() != want.is_zero() || built.is_positive() != (want.signum() > 0) || built.is_negative() != (want.signum() < 0) {
            return Err(format!("{}({:?}, {} words): sign()/is_zero()/is_positive()/is_negative() disagree with the value", name, s, words.len()));
        }
        ctx(eq_bi(&built.signum(), &RefInt::from_i128(want.signum() as i128)), &format!("{} signum", name))?;
    }
    let v = BigInt::from_biguint(s, bu(a));
    let ws = sign_of(want.signum() as i128);
    if v.sign() != ws {
        return Err(format!("from_biguint({:?}, ..).sign() = {:?} want {:?}", s, v.sign(), ws));
    }
    let (ps, pm) = v.into_parts();
    if ps != ws {
        return Err("into_parts sign mismatch".into());
    }
    ctx(eq_bu(&pm, &want.mag), "into_parts magnitude")?;
    let inconsistent = (s == Sign::NoSign && !mag.is_zero()) || (s != Sign::NoSign && mag.is_zero());
    Ok(Info::new(true).class("sign_magnitude_pairs").class_if(inconsistent, "inconsistent_pair"))
}

fn abs_sub_case(sx: bool, x: &[u64], sy: bool, y: &[u64]) -> Verdict {
    let (a, b) = (bi(sx, x), bi(sy, y));
    let (ra, rb) = (ri(sx, x), ri(sy, y));
    let d = ra.sub(&rb);
    let want = if d.neg { RefInt::zero() } else { d };
    ctx(must_return("abs_sub", || a.abs_sub(&b)).and_then(|v| eq_bi(&v, &want)), "abs_sub")?;
    Ok(Info::new(!ra.is_zero() && !rb.is_zero())
        .class("abs_sub")
        .class_if(ra.cmp(&rb) == std::cmp::Ordering::Less, "x_lt_y")
        .class_if(ra == rb, "x_eq_y")
        .class_if(ra.neg != rb.neg, "signs_differ"))
}

/// exhaustive 3x3 Sign tables and constants
fn tables() -> Verdict {
    let all = [Sign::Minus, Sign::NoSign, Sign::Plus];
    for a in all {
        if sign_num(-a) != -sign_num(a) {
            return Err(format!("-{:?} = {:?}", a, -a));
        }
        for b in all {
            if sign_num(a * b) != sign_num(a) * sign_num(b) {
                return Err(format!("{:?} * {:?} = {:?}", a, b, a * b));
            }
        }
    }
    let z = RefInt::zero();
    let o = RefInt::one();
    eq_bi(&BigInt::zero(), &z)?;
    eq_bi(&BigInt::ZERO, &z)?;
    eq_bi(&BigInt::default(), &z)?;
    eq_bi(&BigInt::one(), &o)?;
    eq_bu(&BigUint::zero(), &z.mag)?;
    eq_bu(&BigUint::ZERO, &z.mag)?;
    eq_bu(&BigUint::default(), &z.mag)?;
    eq_bu(&BigUint::one(), &o.mag)?;
    if BigInt::ZERO.sign() != Sign::NoSign || !BigInt::zero().is_zero() || !BigUint::one().is_one() || !BigInt::one().is_one() {
        return Err("constants: wrong sign/is_zero/is_one".into());
    }
    // the trait associated constants
    eq_bi(&<BigInt as num_traits::ConstZero>::ZERO, &z)?;
    eq_bu(&<BigUint as num_traits::ConstZero>::ZERO, &z.mag)?;
    // From<bool>
    eq_bu(&BigUint::from(false), &z.mag)?;
    eq_bu(&BigUint::from(true), &o.mag)?;
    eq_bi(&BigInt::from(false), &z)?;
    eq_bi(&BigInt::from(true), &o)?;
    if BigInt::from(true).sign() != Sign::Plus || BigInt::from(false).sign() != Sign::NoSign {
        return Err("From<bool>: wrong sign".into());
    }
    match 5u8.to_biguint() {
        Some(v) => eq_bu(&v, &Nat::from_u64(5))?,
        None => return Err("5u8.to_biguint() is None".into()),
    }
    Ok(Info::new(true).class("sign_tables_and_constants_exhaustive"))
}

impl Property for C19 {
    fn id(&self) -> &'static str {
        "C19"
    }
    fn rule(&self) -> &'static str {
        "Cases: value (a BigInt, optionally reached through an in-place grow/shrink history so its buffer has spare capacity: Neg by value and reference, x + (-x) = 0, abs, signum, is_positive, is_negative, sign, magnitude, is_zero/is_one for both types, into_parts / from_biguint inverse, to_biguint / to_bigint, set_zero / set_one, x*signum(x) = |x|), pair (every (Sign, magnitude) request incl. inconsistent ones - NoSign with non-zero magnitude, Plus/Minus with zero, magnitudes with redundant high zeros - through from_biguint and into_parts), abs_sub over the sign/order cases, and tables (the 3x3 Sign negation/multiplication tables and zero()/ZERO/default()/one() exhaustively). Oracle: RefInt. Non-trivial: non-zero values; every pair and table case."
    }
    fn strategy(&self, _tier: Tier) -> BoxedStrategy<Case> {
        let padded = (gen::nat(5), 0usize..3).prop_map(|(mut v, z)| {
            v.extend(std::iter::repeat(0).take(z));
            v
        });
        prop_oneof![
            50 => (any::<bool>(), gen::nat(6), prop_oneof![Just(0u64), 1u64..=300]).prop_map(|(s, a, g)| Case::new("value", vec![Arg::Z(s, a), Arg::U(g as u128)])),
            20 => (-1i128..=1, padded).prop_map(|(s, a)| Case::new("pair", vec![Arg::I(s), Arg::N(a)])),
            28 => (any::<bool>(), any::<bool>(), gen::addsub_pair(6)).prop_map(|(sx, sy, (x, y))| Case::new("abs_sub", vec![Arg::Z(sx, x), Arg::Z(sy, y)])),
            2 => Just(Case::new("tables", vec![])),
        ]
        .boxed()
    }
    fn check(&self, c: &Case) -> Verdict {
        match c.op.as_str() {
            "value" => {
                let (s, a) = c.z(0);
                value_case(s, a, c.u(1) as u64)
            }
            "pair" => pair_case(c.i(0), c.n(1)),
            "abs_sub" => {
                let (sx, x) = c.z(0);
                let (sy, y) = c.z(1);
                abs_sub_case(sx, x, sy, y)
            }
            "tables" => tables(),
            o => Err(format!("unknown op {}", o)),
        }
    }
    fn budget(&self, tier: Tier) -> Budget {
        match tier {
            Tier::Quick => Budget { release: 3_000_000, dbg: 1_000_000, workers: 8 },
            Tier::Thorough => Budget { release: 160_000_000, dbg: 40_000_000, workers: 16 },
        }
    }
}
