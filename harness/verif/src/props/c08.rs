//! C08 — primitive integer and float conversions are exact or correctly rounded.
use crate::engine::*;
use crate::gen;
use crate::lib_util::*;
use crate::refint::{trunc_f32, trunc_f64, Nat, RefInt};
use nbcase::{Arg, Case};
use num_bigint::verif_probe::Probe;
use num_bigint::{BigInt, BigUint, ToBigInt, ToBigUint};
use num_traits::{FromPrimitive, ToPrimitive};
use proptest::prelude::*;
use proptest::sample::select;

pub struct C08;

macro_rules! to_prim_u {
    ($x:expr, $r:expr, $near:ident, $( ($T:ty, $to:ident) ),*) => {$(
        {
            let want: Option<$T> = $r.to_i128().and_then(|v| <$T>::try_from(v).ok())
                .or_else(|| if !$r.neg { $r.mag.to_u128().and_then(|v| <$T>::try_from(v).ok()) } else { None });
            let got = must_return(concat!("to_", stringify!($T)), || $x.$to())?;
            if got != want {
                return Err(format!("{}(): got {:?} want {:?}", stringify!($to), got, want));
            }
            let got = must_return("TryFrom<&Big>", || <$T>::try_from(&$x).ok())?;
            if got != want {
                return Err(format!("{}::try_from(&big): got {:?} want {:?}", stringify!($T), got, want));
            }
            match must_return("TryFrom<Big>", || <$T>::try_from($x.clone()))? {
                Ok(v) => if Some(v) != want { return Err(format!("{}::try_from(big): got Ok({}) want {:?}", stringify!($T), v, want)); },
                Err(e) => {
                    if want.is_some() { return Err(format!("{}::try_from(big): got Err want {:?}", stringify!($T), want)); }
                    if e.into_original() != $x { return Err(format!("{}::try_from(big): the error does not carry the original value back", stringify!($T))); }
                }
            }
            // is the value within 2 of this type's MIN or MAX?
            let lo = RefInt::from_i128(<$T>::MIN as i128);
            let hi = if <$T>::MAX as u128 > i128::MAX as u128 { RefInt::from_u128(<$T>::MAX as u128) } else { RefInt::from_i128(<$T>::MAX as i128) };
            for b in [&lo, &hi] {
                let d = $r.sub(b);
                if d.mag.to_u64().map_or(false, |v| v <= 2) { $near = true; }
            }
        }
    )*};
}

fn toprim(neg: bool, a: &[u64], unsigned_type: bool) -> Verdict {
    let r = if unsigned_type { ri(false, a) } else { ri(neg, a) };
    let mut near = false;
    if unsigned_type {
        let x = bu(a);
        to_prim_u!(x, r, near, (u8, to_u8), (u16, to_u16), (u32, to_u32), (u64, to_u64), (usize, to_usize), (u128, to_u128),
                   (i8, to_i8), (i16, to_i16), (i32, to_i32), (i64, to_i64), (isize, to_isize), (i128, to_i128));
        // to_bigint / to_biguint never fail for a BigUint
        match x.to_bigint() {
            Some(v) => ctx(eq_bi(&v, &r), "BigUint::to_bigint")?,
            None => return Err("BigUint::to_bigint returned None".into()),
        }
    } else {
        let x = bi(neg, a);
        to_prim_u!(x, r, near, (u8, to_u8), (u16, to_u16), (u32, to_u32), (u64, to_u64), (usize, to_usize), (u128, to_u128),
                   (i8, to_i8), (i16, to_i16), (i32, to_i32), (i64, to_i64), (isize, to_isize), (i128, to_i128));
        match (x.to_biguint(), r.neg) {
            (Some(v), false) => ctx(eq_bu(&v, &r.mag), "BigInt::to_biguint")?,
            (None, true) => {}
            (g, _) => return Err(format!("BigInt::to_biguint: got {:?} for a value with negative={}", g, r.neg)),
        }
        // trait forms (generic callers do not reach the inherent methods)
        match (ToBigUint::to_biguint(&x), r.neg) {
            (Some(v), false) => ctx(eq_bu(&v, &r.mag), "<BigInt as ToBigUint>::to_biguint")?,
            (None, true) => {}
            (g, _) => return Err(format!("<BigInt as ToBigUint>::to_biguint: got {:?} for a value with negative={}", g, r.neg)),
        }
        match ToBigInt::to_bigint(&x) {
            Some(v) => ctx(eq_bi(&v, &r), "<BigInt as ToBigInt>::to_bigint")?,
            None => return Err("<BigInt as ToBigInt>::to_bigint returned None".into()),
        }
        match (BigUint::try_from(&x), r.neg) {
            (Ok(v), false) => ctx(eq_bu(&v, &r.mag), "BigUint::try_from(&BigInt)")?,
            (Err(_), true) => {}
            (g, _) => return Err(format!("BigUint::try_from(&BigInt): ok={} for a value with negative={}", g.is_ok(), r.neg)),
        }
        ctx(eq_bi(&BigInt::from(x.magnitude().clone()), &r.abs()), "BigInt::from(BigUint)")?;
        match must_return("BigUint::try_from(BigInt)", || BigUint::try_from(x.clone()))? {
            Ok(v) => {
                if r.neg {
                    return Err("BigUint::try_from(negative BigInt) succeeded".into());
                }
                ctx(eq_bu(&v, &r.mag), "BigUint::try_from(BigInt)")?
            }
            Err(e) => {
                if !r.neg {
                    return Err("BigUint::try_from(non-negative BigInt) failed".into());
                }
                if e.into_original() != x {
                    return Err("BigUint::try_from(BigInt): error does not carry the original value".into());
                }
            }
        }
    }
    let b64 = [64u64, 128].iter().any(|k| {
        let d = r.abs().sub(&RefInt::from_nat(Nat::pow2(*k)));
        d.mag.to_u64().map_or(false, |v| v <= 2)
    });
    Ok(Info::new(near || b64)
        .class(if unsigned_type { "toprim_biguint" } else { "toprim_bigint" })
        .class_if(near, "within_2_of_a_type_bound")
        .class_if(b64, "within_2_of_2^64_or_2^128"))
}

macro_rules! from_prim {
    ($v:expr, $r:expr, $( ($T:ty, $fromfn:ident) ),*) => {$(
        if let Ok(t) = <$T>::try_from($v) {
            let t: $T = t;
            ctx(eq_bi(&BigInt::from(t), &$r), concat!("BigInt::from(", stringify!($T), ")"))?;
            match <BigInt as FromPrimitive>::$fromfn(t) {
                Some(x) => ctx(eq_bi(&x, &$r), concat!("BigInt::", stringify!($fromfn)))?,
                None => return Err(format!("BigInt::{}({}) returned None", stringify!($fromfn), t)),
            }
            match t.to_bigint() {
                Some(x) => ctx(eq_bi(&x, &$r), concat!(stringify!($T), "::to_bigint"))?,
                None => return Err(format!("{}::to_bigint returned None", stringify!($T))),
            }
            let u1 = <BigUint as FromPrimitive>::$fromfn(t);
            let u2 = t.to_biguint();
            let u3 = BigUint::try_from(t).ok();
            for (name, u) in [("FromPrimitive", u1), ("to_biguint", u2), ("TryFrom", u3)] {
                match (u, $r.neg) {
                    (Some(x), false) => ctx(eq_bu(&x, &$r.mag), &format!("BigUint {} from {}", name, stringify!($T)))?,
                    (None, true) => {}
                    (g, _) => return Err(format!("BigUint {} from {} {}: got {:?}", name, stringify!($T), t, g)),
                }
            }
        }
    )*};
}

fn fromprim_i(v: i128) -> Verdict {
    let r = RefInt::from_i128(v);
    from_prim!(v, r, (i8, from_i8), (i16, from_i16), (i32, from_i32), (i64, from_i64), (isize, from_isize), (i128, from_i128),
               (u8, from_u8), (u16, from_u16), (u32, from_u32), (u64, from_u64), (usize, from_usize), (u128, from_u128));
    if v >= 0 {
        // the From impls of BigUint exist only for unsigned types
        if let Ok(t) = u8::try_from(v) { ctx(eq_bu(&BigUint::from(t), &r.mag), "BigUint::from(u8)")?; }
        if let Ok(t) = u16::try_from(v) { ctx(eq_bu(&BigUint::from(t), &r.mag), "BigUint::from(u16)")?; }
        if let Ok(t) = u32::try_from(v) { ctx(eq_bu(&BigUint::from(t), &r.mag), "BigUint::from(u32)")?; }
        if let Ok(t) = u64::try_from(v) { ctx(eq_bu(&BigUint::from(t), &r.mag), "BigUint::from(u64)")?; }
        if let Ok(t) = usize::try_from(v) { ctx(eq_bu(&BigUint::from(t), &r.mag), "BigUint::from(usize)")?; }
        ctx(eq_bu(&BigUint::from(v as u128), &r.mag), "BigUint::from(u128)")?;
    }
    Ok(Info::new(true).class("fromprim_signed_range"))
}

fn fromprim_u(v: u128) -> Verdict {
    let r = RefInt::from_u128(v);
    ctx(eq_bu(&BigUint::from(v), &r.mag), "BigUint::from(u128)")?;
    ctx(eq_bi(&BigInt::from(v), &r), "BigInt::from(u128)")?;
    match <BigUint as FromPrimitive>::from_u128(v) {
        Some(x) => ctx(eq_bu(&x, &r.mag), "BigUint::from_u128")?,
        None => return Err("BigUint::from_u128 returned None".into()),
    }
    match <BigInt as FromPrimitive>::from_u128(v) {
        Some(x) => ctx(eq_bi(&x, &r), "BigInt::from_u128")?,
        None => return Err("BigInt::from_u128 returned None".into()),
    }
    if let Ok(t) = u64::try_from(v) {
        ctx(eq_bu(&BigUint::from(t), &r.mag), "BigUint::from(u64)")?;
        ctx(eq_bi(&BigInt::from(t), &r), "BigInt::from(u64)")?;
    }
    // round trip through the export
    let x = BigUint::from(v);
    if x.to_u128() != Some(v) {
        return Err(format!("BigUint::from({}).to_u128() = {:?}", v, x.to_u128()));
    }
    Ok(Info::new(true).class("fromprim_u128"))
}

fn tofloat(neg: bool, a: &[u64]) -> Verdict {
    let r = ri(neg, a);
    let x = bi(neg, a);
    let u = bu(a);
    let w64 = r.to_f64();
    let w32 = r.to_f32();
    let g = must_return("BigInt::to_f64", || x.to_f64())?;
    if g.map(f64::to_bits) != Some(w64.to_bits()) {
        return Err(format!("BigInt::to_f64: got {:?} (bits {:016x?}) want {:e} (bits {:016x})", g, g.map(f64::to_bits), w64, w64.to_bits()));
    }
    let g = must_return("BigInt::to_f32", || x.to_f32())?;
    if g.map(f32::to_bits) != Some(w32.to_bits()) {
        return Err(format!("BigInt::to_f32: got {:?} (bits {:08x?}) want {:e} (bits {:08x})", g, g.map(f32::to_bits), w32, w32.to_bits()));
    }
    let (m64, m32) = (r.mag.to_f64(), r.mag.to_f32());
    let g = must_return("BigUint::to_f64", || u.to_f64())?;
    if g.map(f64::to_bits) != Some(m64.to_bits()) {
        return Err(format!("BigUint::to_f64: got {:?} (bits {:016x?}) want {:e} (bits {:016x})", g, g.map(f64::to_bits), m64, m64.to_bits()));
    }
    let g = must_return("BigUint::to_f32", || u.to_f32())?;
    if g.map(f32::to_bits) != Some(m32.to_bits()) {
        return Err(format!("BigUint::to_f32: got {:?} (bits {:08x?}) want {:e} (bits {:08x})", g, g.map(f32::to_bits), m32, m32.to_bits()));
    }
    // second oracle: native casts for <= 128 bits
    if let Some(v) = r.mag.to_u128() {
        if (v as f64).to_bits() != m64.to_bits() || (v as f32).to_bits() != m32.to_bits() {
            crate::refint::oracle_error("reference float rounding disagrees with the native u128 cast");
        }
    }
    let bits = r.mag.bits();
    let inexact64 = bits > 53 && r.mag.low_bits_nonzero(bits - 53);
    let inexact32 = bits > 24 && r.mag.low_bits_nonzero(bits - 24);
    let tie64 = bits > 53 && r.mag.bit(bits - 54) && !r.mag.low_bits_nonzero(bits - 54);
    let far64 = bits > 54 && r.mag.trailing_zeros().map_or(false, |tz| tz + 64 < bits - 54);
    Ok(Info::new(inexact64 || inexact32)
        .class("to_float")
        .class_if(inexact64, "f64_inexact")
        .class_if(tie64, "f64_exact_tie")
        .class_if(far64, "f64_deciding_bit_more_than_a_digit_below_round_bit")
        .class_if(m64.is_infinite(), "f64_overflow_to_inf")
        .class_if(m32.is_infinite(), "f32_overflow_to_inf")
        .class_if(a.len() >= 3, "three_or_more_digits"))
}

fn fromf64(bits: u64) -> Verdict {
    let f = f64::from_bits(bits);
    let want = trunc_f64(f);
    let gi = must_return("BigInt::from_f64", || BigInt::from_f64(f))?;
    let gu = must_return("BigUint::from_f64", || BigUint::from_f64(f))?;
    let gi2 = must_return("f64::to_bigint", || f.to_bigint())?;
    let gu2 = must_return("f64::to_biguint", || f.to_biguint())?;
    if gi != gi2 || gu != gu2 {
        return Err(format!("from_f64 and to_bigint/to_biguint disagree for {:e}", f));
    }
    match (&want, &gi) {
        (None, None) => {}
        (Some(w), Some(g)) => ctx(eq_bi(g, w), &format!("BigInt::from_f64({:e})", f))?,
        (w, g) => return Err(format!("BigInt::from_f64({:e}) [bits {:016x}]: got {:?} want {:?}", f, bits, g, w.as_ref().map(|x| x.hex()))),
    }
    let want_u = match &want {
        Some(w) if !w.neg => Some(w.mag.clone()),
        _ => None,
    };
    match (&want_u, &gu) {
        (None, None) => {}
        (Some(w), Some(g)) => ctx(eq_bu(g, w), &format!("BigUint::from_f64({:e})", f))?,
        (w, g) => return Err(format!("BigUint::from_f64({:e}) [bits {:016x}]: got {:?} want {:?}", f, bits, g, w.as_ref().map(|x| x.to_string_radix(16, false)))),
    }
    Ok(Info::new(f.is_finite() && f.fract() != 0.0 || !f.is_finite() || f.abs() >= 1.8446744073709552e19)
        .class("from_f64")
        .class_if(f.is_nan(), "nan")
        .class_if(f.is_infinite(), "infinite")
        .class_if(f.is_finite() && f.fract() != 0.0, "fraction_discarded")
        .class_if(f.is_finite() && f != 0.0 && f.abs() < f64::MIN_POSITIVE, "subnormal")
        .class_if(bits == 1 << 63, "negative_zero"))
}

fn fromf32(bits: u32) -> Verdict {
    let f = f32::from_bits(bits);
    let want = trunc_f32(f);
    let gi = must_return("BigInt::from_f32", || BigInt::from_f32(f))?;
    let gu = must_return("BigUint::from_f32", || BigUint::from_f32(f))?;
    // the ToBigInt / ToBigUint impls for f32 are separate trait impls
    let (ti, tu) = (must_return("f32::to_bigint", || f.to_bigint())?, must_return("f32::to_biguint", || f.to_biguint())?);
    if ti != gi || tu != gu {
        return Err(format!("f32 {:e}: to_bigint/to_biguint disagree with from_f32", f));
    }
    match (&want, &gi) {
        (None, None) => {}
        (Some(w), Some(g)) => ctx(eq_bi(g, w), &format!("BigInt::from_f32({:e})", f))?,
        (w, g) => return Err(format!("BigInt::from_f32({:e}): got {:?} want {:?}", f, g, w.as_ref().map(|x| x.hex()))),
    }
    let want_u = match &want {
        Some(w) if !w.neg => Some(w.mag.clone()),
        _ => None,
    };
    match (&want_u, &gu) {
        (None, None) => {}
        (Some(w), Some(g)) => ctx(eq_bu(g, w), &format!("BigUint::from_f32({:e})", f))?,
        (w, g) => return Err(format!("BigUint::from_f32({:e}): got {:?} want {:?}", f, g, w.as_ref().map(|x| x.to_string_radix(16, false)))),
    }
    Ok(Info::new(!f.is_finite() || f.fract() != 0.0 || f.abs() >= 4294967296.0)
        .class("from_f32")
        .class_if(f.is_nan(), "nan")
        .class_if(f.is_finite() && f.fract() != 0.0, "fraction_discarded"))
}

/// values within +-2 of type bounds and digit boundaries
fn boundary_value() -> BoxedStrategy<(bool, Vec<u64>)> {
    let bounds: Vec<i128> = vec![
        i8::MIN as i128, i8::MAX as i128, u8::MAX as i128, i16::MIN as i128, i16::MAX as i128, u16::MAX as i128,
        i32::MIN as i128, i32::MAX as i128, u32::MAX as i128, i64::MIN as i128, i64::MAX as i128, u64::MAX as i128, 0,
    ];
    prop_oneof![
        50 => (select(bounds), -3i128..=3).prop_map(|(b, d)| {
            let r = RefInt::from_i128(b + d);
            (r.neg, r.mag.to_u64_digits())
        }),
        50 => (select(vec![(false, 127u64), (true, 127), (false, 128), (true, 128), (false, 64), (true, 64), (false, 63), (true, 63)]), -3i128..=3).prop_map(|((neg, k), d)| {
            // +-2^k + d ; k=127 gives i128::MAX+1 / i128::MIN, k=128 gives u128::MAX+1
            let r = RefInt::new(neg, Nat::pow2(k)).add(&RefInt::from_i128(d));
            (r.neg, r.mag.to_u64_digits())
        }),
    ]
    .boxed()
}

/// big integers made for float rounding: mantissa | round bit | zeros | deciding bit | zeros
fn float_value(max_gap: u64) -> BoxedStrategy<Vec<u64>> {
    let mant = prop_oneof![
        40 => any::<u64>(),
        20 => Just(u64::MAX),
        20 => select(vec![1u64 << 63, (1 << 63) | 1, (1 << 63) | (1 << 10), u64::MAX - 1, (1u64 << 63) | ((1 << 11) - 1), (1u64 << 63) | (1 << 39), u64::MAX << 11, u64::MAX << 40]),
        20 => any::<u64>().prop_map(|x| x | (1 << 63)),
    ];
    prop_oneof![
        // mantissa bits (53 or 24 significant) | round | gap zeros | deciding | trailing zeros
        45 => (mant.clone(), select(vec![24u32, 53, 54, 64]), any::<bool>(), 0u64..=max_gap, any::<bool>(), 0u64..=200).prop_map(|(m, width, round, gap, decide, tz)| {
            let m = (m | (1 << 63)) >> (64 - width);
            let mut v = Nat::from_u64(m).shl(1);
            if round { v = v.add(&Nat::one()); }
            v = v.shl(gap + 1);
            if decide { v = v.add(&Nat::one()); }
            v.shl(tz).to_u64_digits()
        }),
        // just below half: round bit 0 followed by ones
        15 => (mant.clone(), select(vec![24u32, 53]), 1u64..=300, 0u64..=130).prop_map(|(m, width, ones, tz)| {
            let m = (m | (1 << 63)) >> (64 - width);
            let v = Nat::from_u64(m).shl(1 + ones).add(&Nat::pow2(ones).sub(&Nat::one()));
            v.shl(tz).to_u64_digits()
        }),
        // around powers of two that matter
        20 => (select(vec![24u64, 25, 53, 54, 63, 64, 65, 127, 128, 129, 1022, 1023, 1024, 1025, 2000]), -3i128..=3).prop_map(|(k, d)| {
            RefInt::from_nat(Nat::pow2(k)).add(&RefInt::from_i128(d)).mag.to_u64_digits()
        }),
        // all-ones mantissas near the overflow edge: (2^w - 1) << s
        10 => (select(vec![24u64, 25, 53, 54, 55, 64, 100]), select(vec![0u64, 1, 103, 104, 105, 960, 969, 970, 971, 972, 1000])).prop_map(|(w, s)| {
            Nat::pow2(w).sub(&Nat::one()).shl(s).to_u64_digits()
        }),
        10 => gen::nat(20),
    ]
    .boxed()
}

fn float_bits64() -> BoxedStrategy<u64> {
    prop_oneof![
        20 => any::<u64>(),
        10 => select(vec![0u64, 1 << 63, 1, (1 << 63) | 1, 0x7ff0_0000_0000_0000, 0xfff0_0000_0000_0000, 0x7ff8_0000_0000_0000, 0x7ff0_0000_0000_0001,
                          0x7fef_ffff_ffff_ffff, 0xffef_ffff_ffff_ffff, 0x000f_ffff_ffff_ffff, 0x0010_0000_0000_0000, 0x3ff0_0000_0000_0000, 0xbfef_ffff_ffff_ffff, 0xbff0_0000_0000_0000]),
        // exponents around the integer/fraction border and digit borders
        50 => (any::<bool>(), select(vec![1022u64, 1023, 1024, 1023 + 51, 1023 + 52, 1023 + 53, 1023 + 62, 1023 + 63, 1023 + 64, 1023 + 65, 1023 + 127, 1023 + 128, 1023 + 1000, 2046]), any::<u64>())
            .prop_map(|(s, e, f)| ((s as u64) << 63) | (e << 52) | (f & ((1 << 52) - 1))),
        20 => (any::<bool>(), 1000u64..1200, prop_oneof![Just(0u64), Just((1u64 << 52) - 1), any::<u64>()])
            .prop_map(|(s, e, f)| ((s as u64) << 63) | (e << 52) | (f & ((1 << 52) - 1))),
    ]
    .boxed()
}

impl Property for C08 {
    fn id(&self) -> &'static str {
        "C08"
    }
    fn rule(&self) -> &'static str {
        "Cases: toprim.u/toprim.i (a big value through to_i8..to_u128/to_isize/to_usize, TryFrom<&Big>, TryFrom<Big> incl. into_original() on failure, to_biguint/to_bigint), fromprim.i/fromprim.u (a primitive through From, FromPrimitive, TryFrom, ToBigInt/ToBigUint for every type that can hold it), tofloat (to_f64/to_f32 of BigInt and BigUint compared bit-for-bit with the correctly rounded reference), fromf64/fromf32 (arbitrary bit patterns incl. +-0, subnormals, NaN, infinities). Big values are within +-3 of every type bound and of +-2^63/2^64/2^127/2^128, special-digit values, and float-rounding shapes: mantissa | round bit | gap of 0..4000 zeros | deciding bit | trailing zeros (every alignment against the 64-bit digit grid), round-bit-0-then-ones, 2^k+-d around 2^24,2^53,2^64,2^128,2^1024 and all-ones mantissas at the overflow edge. Non-trivial: value within 2 of a type bound / 2^64 / 2^128, or a float case whose discarded bits are non-zero (to-float), fraction/NaN/inf/above-2^64 (from-float); all from-primitive cases."
    }
    fn strategy(&self, tier: Tier) -> BoxedStrategy<Case> {
        let gap = match tier {
            Tier::Quick => 700,
            Tier::Thorough => 4000,
        };
        let big = prop_oneof![
            55 => boundary_value(),
            30 => gen::int(3),
            8 => gen::int(8),
            // a fitting low part under zero middle digits and a non-zero high digit (early-exit-by-position logic)
            7 => (any::<bool>(), gen::digit(), 1usize..=5, gen::digit()).prop_map(|(s, lo, z, hi)| { let mut v = vec![lo]; v.extend(std::iter::repeat(0).take(z)); v.push(hi | 1); (s, v) }),
        ];
        prop_oneof![
            12 => big.clone().prop_map(|(_, a)| Case::new("toprim.u", vec![Arg::N(a)])),
            18 => big.prop_map(|(s, a)| Case::new("toprim.i", vec![Arg::Z(s, a)])),
            10 => gen::scalar_i128().prop_map(|v| Case::new("fromprim.i", vec![Arg::I(v)])),
            5 => gen::scalar_u128().prop_map(|v| Case::new("fromprim.u", vec![Arg::U(v)])),
            35 => (any::<bool>(), float_value(gap)).prop_map(|(s, a)| Case::new("tofloat", vec![Arg::Z(s, a)])),
            14 => float_bits64().prop_map(|b| Case::new("fromf64", vec![Arg::U(b as u128)])),
            6 => prop_oneof![any::<u32>(), select(vec![0u32, 1 << 31, 0x7f80_0000, 0xff80_0000, 0x7fc0_0000, 0x7f7f_ffff, 0x4f00_0000, 0x5f00_0000, 0x3f80_0000, 0xbf7f_ffff, 1])]
                .prop_map(|b| Case::new("fromf32", vec![Arg::U(b as u128)])),
        ]
        .boxed()
    }
    fn check(&self, c: &Case) -> Verdict {
        match c.op.as_str() {
            "toprim.u" => toprim(false, c.n(0), true),
            "toprim.i" => {
                let (s, a) = c.z(0);
                toprim(s, a, false)
            }
            "fromprim.i" => fromprim_i(c.i(0)),
            "fromprim.u" => fromprim_u(c.u(0)),
            "tofloat" => {
                let (s, a) = c.z(0);
                tofloat(s, a)
            }
            "fromf64" => fromf64(c.u(0) as u64),
            "fromf32" => fromf32(c.u(0) as u32),
            o => Err(format!("unknown op {}", o)),
        }
    }
    fn budget(&self, tier: Tier) -> Budget {
        match tier {
            Tier::Quick => Budget { release: 4_500_000, dbg: 1_500_000, workers: 8 },
            Tier::Thorough => Budget { release: 160_000_000, dbg: 40_000_000, workers: 16 },
        }
    }
    fn probes(&self) -> Vec<Probe> {
        vec![Probe::FLOAT_STICKY]
    }
    fn assumptions(&self) -> Vec<String> {
        vec![
            "reference rounding (top bits, round bit, sticky bit, carry into the exponent) is cross-checked against CPython float() and, in every run, against native u128 -> float casts for values below 2^128".into(),
            "usize/isize are 64-bit on the only runnable target".into(),
        ]
    }
}
