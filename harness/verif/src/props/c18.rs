//! C18 — random generation stays within the requested bounds and is a fixed function of the
//! RNG stream.
use crate::engine::*;
use crate::gen;
use crate::lib_util::*;
use crate::refint::{Nat, RefInt};
use nbcase::{Arg, Case};
use num_bigint::{BigInt, BigUint, RandBigInt, RandomBits};
use proptest::collection::vec;
use proptest::prelude::*;
use proptest::sample::select;
use rand::distributions::uniform::UniformSampler;
use rand::distributions::{Distribution, Uniform};
use rand::{RngCore, SeedableRng};

pub struct C18;

/// An RNG whose output is a byte stream: first the generated prefix, then a splitmix64 stream
/// (so rejection loops always terminate).  Clone gives an independent reader of the same stream.
#[derive(Clone)]
pub struct StreamRng {
    prefix: Vec<u8>,
    pos: usize,
    state: u64,
    buf: [u8; 8],
    buf_pos: usize,
    pub consumed: u64,
}

impl StreamRng {
    pub fn new(prefix: &[u8], seed: u64) -> StreamRng {
        StreamRng { prefix: prefix.to_vec(), pos: 0, state: seed, buf: [0; 8], buf_pos: 8, consumed: 0 }
    }
    fn byte(&mut self) -> u8 {
        self.consumed += 1;
        if self.pos < self.prefix.len() {
            self.pos += 1;
            return self.prefix[self.pos - 1];
        }
        if self.buf_pos == 8 {
            self.state = self.state.wrapping_add(0x9E3779B97F4A7C15);
            let mut z = self.state;
            z = (z ^ (z >> 30)).wrapping_mul(0xBF58476D1CE4E5B9);
            z = (z ^ (z >> 27)).wrapping_mul(0x94D049BB133111EB);
            z ^= z >> 31;
            self.buf = z.to_le_bytes();
            self.buf_pos = 0;
        }
        self.buf_pos += 1;
        self.buf[self.buf_pos - 1]
    }
    /// the model of gen_biguint(n): ceil(n/32) little-endian 32-bit words, top word shifted down
    pub fn model_biguint(&mut self, n: u64) -> Nat {
        let words = ((n + 31) / 32) as usize;
        let mut w = Vec::with_capacity(words);
        for _ in 0..words {
            let b = [self.byte(), self.byte(), self.byte(), self.byte()];
            w.push(u32::from_le_bytes(b));
        }
        let rem = n % 32;
        if rem > 0 {
            let l = w.len() - 1;
            w[l] >>= 32 - rem;
        }
        Nat::from_u32_digits(&w)
    }
    /// the model of gen_biguint_below(b): the first candidate of width bits(b) below b
    pub fn model_below(&mut self, b: &Nat) -> (Nat, u64) {
        let bits = b.bits();
        let mut rejections = 0;
        loop {
            let c = self.model_biguint(bits);
            if c.lt(b) {
                return (c, rejections);
            }
            rejections += 1;
            if rejections > 10_000 {
                crate::refint::oracle_error("model_below: stream never produces a candidate below the bound");
            }
        }
    }
}

impl RngCore for StreamRng {
    fn next_u32(&mut self) -> u32 {
        u32::from_le_bytes([self.byte(), self.byte(), self.byte(), self.byte()])
    }
    fn next_u64(&mut self) -> u64 {
        let lo = self.next_u32() as u64;
        let hi = self.next_u32() as u64;
        lo | (hi << 32)
    }
    fn fill_bytes(&mut self, dest: &mut [u8]) {
        for d in dest.iter_mut() {
            *d = self.byte();
        }
    }
    fn try_fill_bytes(&mut self, dest: &mut [u8]) -> Result<(), rand::Error> {
        self.fill_bytes(dest);
        Ok(())
    }
}

fn bits_case(prefix: &[u8], seed: u64, n: u64) -> Verdict {
    let mut rng = StreamRng::new(prefix, seed);
    let mut model = rng.clone();
    let want = model.model_biguint(n);
    let got = must_return("gen_biguint", || rng.gen_biguint(n))?;
    ctx(eq_bu(&got, &want), &format!("gen_biguint({}) is not the first ceil(n/32) little-endian words of the stream", n))?;
    if got.bits() > n {
        return Err(format!("gen_biguint({}) returned a {}-bit value", n, got.bits()));
    }
    // a second draw continues exactly where the first stopped (the value-stability guarantee covers sequences of
    // calls on one generator, as in ci/big_rand): no word skipped, none read twice
    let n2 = (n.wrapping_mul(7) + 13) % 131;
    let want2 = model.model_biguint(n2);
    let got2 = must_return("gen_biguint (second call)", || rng.gen_biguint(n2))?;
    ctx(eq_bu(&got2, &want2), &format!("gen_biguint({}) followed by gen_biguint({}): the second value is not the next ceil(n/32) words of the stream", n, n2))?;
    // RandomBits matches gen_biguint from a cloned RNG
    let mut r2 = StreamRng::new(prefix, seed);
    let via: BigUint = must_return("RandomBits", || RandomBits::new(n).sample(&mut r2))?;
    ctx(eq_bu(&via, &want), "RandomBits -> BigUint differs from gen_biguint")?;
    // gen_bigint: range and canonical form, and RandomBits agreement
    let mut r3 = StreamRng::new(prefix, seed);
    let gi = must_return("gen_bigint", || r3.gen_bigint(n))?;
    let ri_ = ref_of_bi(&gi);
    ctx(eq_bi(&gi, &ri_), "gen_bigint result")?;
    if ri_.mag.bits() > n {
        return Err(format!("gen_bigint({}) returned a value outside (-2^n, 2^n): {}", n, trunc(&ri_.hex(), 100)));
    }
    let mut r4 = StreamRng::new(prefix, seed);
    let via: BigInt = must_return("RandomBits", || RandomBits::new(n).sample(&mut r4))?;
    if via != gi {
        return Err("RandomBits -> BigInt differs from gen_bigint on the same stream".into());
    }
    Ok(Info::new(n % 64 != 0)
        .class("gen_bits")
        .class_if(n == 0, "zero_bits")
        .class_if(n % 32 == 0 && n > 0, "multiple_of_32")
        .class_if(n % 64 == 0 && n > 0, "multiple_of_64")
        .class_if(n % 32 != 0, "partial_top_word")
        .class_if((n + 31) / 32 % 2 == 1, "odd_u32_word_count")
        .class_if(ri_.is_zero(), "gen_bigint_zero_path"))
}

fn range_case(prefix: &[u8], seed: u64, lneg: bool, lo: &[u64], hneg: bool, hi: &[u64]) -> Verdict {
    let (l, h) = (ri(lneg, lo), ri(hneg, hi));
    let (bl, bh) = (bi(lneg, lo), bi(hneg, hi));
    let ord = l.cmp(&h);
    let mut classes: Vec<&'static str> = vec!["ranges"];
    let mut rejections_seen = 0u64;
    // ---- BigInt range ----
    if ord != std::cmp::Ordering::Less {
        let mut rng = StreamRng::new(prefix, seed);
        must_panic("gen_bigint_range with an empty or inverted range", || rng.gen_bigint_range(&bl, &bh))?;
        must_panic("Uniform::<BigInt>::new with an empty or inverted range", || Uniform::new(bl.clone(), bh.clone()))?;
        must_panic("UniformBigInt::sample_single with an empty or inverted range", || { let mut rng = StreamRng::new(prefix, seed); <BigInt as rand::distributions::uniform::SampleUniform>::Sampler::sample_single(bl.clone(), bh.clone(), &mut rng) })?;
        if ord == std::cmp::Ordering::Greater {
            must_panic("Uniform::<BigInt>::new_inclusive with an inverted range", || Uniform::new_inclusive(bl.clone(), bh.clone()))?;
        }
        classes.push("empty_or_inverted_range");
    } else {
        let width = h.sub(&l).mag;
        let mut model = StreamRng::new(prefix, seed);
        let (cand, rej) = model.model_below(&width);
        rejections_seen = rej;
        let want = l.add(&RefInt::from_nat(cand));
        let mut rng = StreamRng::new(prefix, seed);
        ctx(must_return("gen_bigint_range", || rng.gen_bigint_range(&bl, &bh)).and_then(|v| eq_bi(&v, &want)), "gen_bigint_range: result - low is not the first candidate below high - low")?;
        // the generator is left just after the accepted candidate
        let want2 = model.model_biguint(45);
        ctx(must_return("gen_biguint after gen_bigint_range", || rng.gen_biguint(45)).and_then(|v| eq_bu(&v, &want2)), "gen_bigint_range consumed more or less of the stream than its candidates")?;
        let mut rng = StreamRng::new(prefix, seed);
        ctx(must_return("Rng::gen_range(low..high)", || rand::Rng::gen_range(&mut rng, bl.clone()..bh.clone())).and_then(|v| eq_bi(&v, &want)), "Rng::gen_range(low..high) for BigInt")?;
        let mut rng = StreamRng::new(prefix, seed);
        ctx(must_return("Uniform::new", || Uniform::new(bl.clone(), bh.clone()).sample(&mut rng)).and_then(|v| eq_bi(&v, &want)), "Uniform::<BigInt>::new(low, high).sample")?;
        let mut rng = StreamRng::new(prefix, seed);
        ctx(must_return("sample_single", || <BigInt as rand::distributions::uniform::SampleUniform>::Sampler::sample_single(bl.clone(), bh.clone(), &mut rng)).and_then(|v| eq_bi(&v, &want)), "UniformBigInt::sample_single")?;
        if want.cmp(&l) == std::cmp::Ordering::Less || want.cmp(&h) != std::cmp::Ordering::Less {
            crate::refint::oracle_error("range model produced a value outside [low, high)");
        }
        if l.is_zero() {
            classes.push("lbound_zero");
        }
        if h.is_zero() {
            classes.push("ubound_zero");
        }
        if l.neg && !h.neg && !h.is_zero() {
            classes.push("zero_crossing");
        }
        if width.is_one() {
            classes.push("width_one");
        }
    }
    // inclusive constructor: [low, high]
    if ord != std::cmp::Ordering::Greater {
        let width = h.sub(&l).mag.add(&Nat::one());
        let mut model = StreamRng::new(prefix, seed);
        let (cand, _) = model.model_below(&width);
        let want = l.add(&RefInt::from_nat(cand));
        let mut rng = StreamRng::new(prefix, seed);
        ctx(must_return("Uniform::new_inclusive", || Uniform::new_inclusive(bl.clone(), bh.clone()).sample(&mut rng)).and_then(|v| eq_bi(&v, &want)), "Uniform::<BigInt>::new_inclusive(low, high).sample")?;
        let mut rng = StreamRng::new(prefix, seed);
        ctx(must_return("Rng::gen_range(low..=high)", || rand::Rng::gen_range(&mut rng, bl.clone()..=bh.clone())).and_then(|v| eq_bi(&v, &want)), "Rng::gen_range(low..=high) for BigInt")?;
        if want.cmp(&l) == std::cmp::Ordering::Less || want.cmp(&h) == std::cmp::Ordering::Greater {
            crate::refint::oracle_error("inclusive range model produced a value outside [low, high]");
        }
    }
    // ---- BigUint range on magnitudes ----
    let (ul, uh) = (rn(lo), rn(hi));
    let (bul, buh) = (bu(lo), bu(hi));
    if ul.le(&uh) {
        // inclusive constructor: [low, high], a single value when low == high
        let widthi = uh.sub(&ul).add(&Nat::one());
        let mut model = StreamRng::new(prefix, seed);
        let (cand, _) = model.model_below(&widthi);
        let mut rng = StreamRng::new(prefix, seed);
        ctx(must_return("Uniform::new_inclusive", || Uniform::new_inclusive(bul.clone(), buh.clone()).sample(&mut rng)).and_then(|v| eq_bu(&v, &ul.add(&cand))), "Uniform::<BigUint>::new_inclusive")?;
    } else {
        must_panic("Uniform::<BigUint>::new_inclusive with an inverted range", || Uniform::new_inclusive(bul.clone(), buh.clone()))?;
    }
    if !ul.lt(&uh) {
        let mut rng = StreamRng::new(prefix, seed);
        must_panic("gen_biguint_range with an empty or inverted range", || rng.gen_biguint_range(&bul, &buh))?;
        must_panic("Uniform::<BigUint>::new with an empty or inverted range", || Uniform::new(bul.clone(), buh.clone()))?;
        must_panic("UniformBigUint::sample_single with an empty or inverted range", || { let mut rng = StreamRng::new(prefix, seed); <BigUint as rand::distributions::uniform::SampleUniform>::Sampler::sample_single(bul.clone(), buh.clone(), &mut rng) })?;
    } else {
        let width = uh.sub(&ul);
        let mut model = StreamRng::new(prefix, seed);
        let (cand, rej) = model.model_below(&width);
        rejections_seen = rejections_seen.max(rej);
        let want = ul.add(&cand);
        let mut rng = StreamRng::new(prefix, seed);
        ctx(must_return("gen_biguint_range", || rng.gen_biguint_range(&bul, &buh)).and_then(|v| eq_bu(&v, &want)), "gen_biguint_range")?;
        let want2 = model.model_biguint(77);
        ctx(must_return("gen_biguint after gen_biguint_range", || rng.gen_biguint(77)).and_then(|v| eq_bu(&v, &want2)), "gen_biguint_range consumed more or less of the stream than its candidates")?;
        let mut rng = StreamRng::new(prefix, seed);
        ctx(must_return("Rng::gen_range(low..high)", || rand::Rng::gen_range(&mut rng, bul.clone()..buh.clone())).and_then(|v| eq_bu(&v, &want)), "Rng::gen_range(low..high) for BigUint")?;
        let mut rng = StreamRng::new(prefix, seed);
        ctx(must_return("Uniform::new", || Uniform::new(bul.clone(), buh.clone()).sample(&mut rng)).and_then(|v| eq_bu(&v, &want)), "Uniform::<BigUint>::new(low, high).sample")?;
        let mut rng = StreamRng::new(prefix, seed);
        ctx(must_return("sample_single", || <BigUint as rand::distributions::uniform::SampleUniform>::Sampler::sample_single(bul.clone(), buh.clone(), &mut rng)).and_then(|v| eq_bu(&v, &want)), "UniformBigUint::sample_single")?;
    }
    // ---- gen_biguint_below(high magnitude) ----
    if uh.is_zero() {
        let mut rng = StreamRng::new(prefix, seed);
        must_panic("gen_biguint_below(0)", || rng.gen_biguint_below(&buh))?;
        classes.push("zero_bound");
    } else {
        let mut model = StreamRng::new(prefix, seed);
        let (cand, rej) = model.model_below(&uh);
        rejections_seen = rejections_seen.max(rej);
        let mut rng = StreamRng::new(prefix, seed);
        ctx(must_return("gen_biguint_below", || rng.gen_biguint_below(&buh)).and_then(|v| eq_bu(&v, &cand)), "gen_biguint_below: not the first candidate below the bound")?;
        let (cand2, _) = model.model_below(&uh);
        ctx(must_return("gen_biguint_below (second call)", || rng.gen_biguint_below(&buh)).and_then(|v| eq_bu(&v, &cand2)), "gen_biguint_below twice: the second value is not the next candidate below the bound")?;
    }
    let mut info = Info::new(rejections_seen >= 1 || classes.len() > 1);
    info.classes = classes;
    Ok(info.class_if(rejections_seen >= 1, "rejection_loop_retried").class_if(rejections_seen >= 3, "three_or_more_rejections"))
}

fn chacha_vectors() -> Verdict {
    // value-stability vectors from ci/big_rand (rand_chacha 0.3)
    const EXPECTED: &[&str] = &[
        "0",
        "0",
        "52",
        "84",
        "23780",
        "86502865016",
        "187057847319509867386",
        "34045731223080904464438757488196244981910",
        "23813754422987836414755953516143692594193066497413249270287126597896871975915808",
        "5740163690314694541165254909881844691181435252944935639369098410538348270307435567088360974672291353736011718191813678720755501317478656550386324355699624671",
    ];
    let mut seed = <rand_chacha::ChaChaRng as SeedableRng>::Seed::default();
    for (i, x) in seed.as_mut().iter_mut().enumerate() {
        *x = (i as u8).wrapping_mul(191);
    }
    let mut rng = rand_chacha::ChaChaRng::from_seed(seed);
    for (i, s) in EXPECTED.iter().enumerate() {
        let want: BigUint = s.parse().map_err(|_| "harness: bad vector")?;
        let got = must_return("gen_biguint", || rng.gen_biguint((1 << i) + i as u64))?;
        if got != want {
            return Err(format!("ChaCha value-stability vector {}: got {} want {}", i, got, want));
        }
    }
    Ok(Info::new(true).class("chacha_value_stability_vectors"))
}

fn prefix() -> BoxedStrategy<Vec<u8>> {
    prop_oneof![
        15 => vec(Just(0u8), 0..=96),
        15 => vec(Just(0xffu8), 0..=96),
        30 => vec(prop_oneof![select(vec![0u8, 0xff, 0x80, 0x7f, 1]), any::<u8>()], 0..=96),
        40 => vec(any::<u8>(), 0..=64),
    ]
    .boxed()
}

fn bit_size() -> BoxedStrategy<u64> {
    prop_oneof![
        40 => 0u64..=130,
        30 => (1u64..=64, -1i64..=1).prop_map(|(k, d)| (k as i64 * 32 + d).max(0) as u64),
        20 => (1u64..=32, -1i64..=1).prop_map(|(k, d)| (k as i64 * 64 + d).max(0) as u64),
        10 => 0u64..=2100,
    ]
    .boxed()
}

impl Property for C18 {
    fn id(&self) -> &'static str {
        "C18"
    }
    fn rule(&self) -> &'static str {
        "Cases are histories of RNG output: a byte-stream RngCore whose first bytes are generated (all-zero, all-ones, special-byte and uniform prefixes of 0..96 bytes, and prefixes engineered so the first k candidates exceed the bound) and which then continues from a splitmix64 stream. bits (stream, n): n in 0..=130, 32k+{-1,0,1}, 64k+{-1,0,1}, up to 2100; gen_biguint(n) must equal the model (first ceil(n/32) little-endian 32-bit words as base-2^32 digits, top word shifted right by 32 - n%32), RandomBits must match, gen_bigint(n) must be canonical and inside (-2^n, 2^n) and match RandomBits. range (stream, low, high) over all sign pairs: width 1, 2^k, 2^k+-1, negative, zero-crossing, lbound = 0, ubound = 0; gen_bigint_range / gen_biguint_range / Uniform::new / new_inclusive / sample_single must return low + (first candidate of width bits(high-low) below high-low), gen_biguint_below the first candidate below the bound; Rng::gen_range(low..high) and (low..=high) likewise; a second draw after each call must continue from exactly the next unread word of the stream; empty, inverted and zero bounds must panic. chacha: the ChaCha value-stability vectors of ci/big_rand. Non-trivial: n not a multiple of 64, or the rejection loop retried at least once, or a special range class."
    }
    fn technique(&self) -> &'static str {
        "model-based property testing (proptest) over generated RNG output streams: a byte-stream RngCore drives the library and an independent reader of the same stream computes the documented function"
    }
    fn strategy(&self, _tier: Tier) -> BoxedStrategy<Case> {
        let bits = (prefix(), any::<u64>(), bit_size()).prop_map(|(p, s, n)| Case::new("bits", vec![Arg::B(p), Arg::U(s as u128), Arg::U(n as u128)]));
        // bounds: powers of two +- 1, small widths, multi-digit
        let bound = prop_oneof![
            25 => gen::nat(3),
            5 => gen::nat(9),
            30 => (0u64..=520, -1i128..=1).prop_map(|(k, d)| RefInt::from_nat(Nat::pow2(k)).add(&RefInt::from_i128(d)).mag.to_u64_digits()),
            20 => (0u64..=10).prop_map(|v| gen::trim(vec![v])),
            20 => gen::nat(1),
        ];
        let pair = prop_oneof![
            50 => (any::<bool>(), bound.clone(), any::<bool>(), bound.clone()),
            // low, low + width
            35 => (any::<bool>(), gen::nat(3), prop_oneof![Just(vec![1u64]), bound.clone()]).prop_map(|(neg, lo, w)| {
                let l = RefInt::from_digits(neg, &lo);
                let h = l.add(&RefInt::from_digits(false, &w));
                (l.neg, l.mag.to_u64_digits(), h.neg, h.mag.to_u64_digits())
            }),
            15 => (any::<bool>(), gen::nat(2)).prop_map(|(neg, v)| (neg, v.clone(), neg, v)),
        ];
        // prefixes that force rejections: all-ones words make every candidate of width bits(b) exceed a bound like 2^k + small
        let range = (prefix(), any::<u64>(), pair).prop_map(|(p, s, (ln, lo, hn, hi))| Case::new("range", vec![Arg::B(p), Arg::U(s as u128), Arg::Z(ln, lo), Arg::Z(hn, hi)]));
        prop_oneof![45 => bits, 54 => range, 1 => Just(Case::new("chacha", vec![]))].boxed()
    }
    fn check(&self, c: &Case) -> Verdict {
        match c.op.as_str() {
            "bits" => {
                let n = c.u(2) as u64;
                if n > 1 << 20 {
                    return Err("harness: bit size outside the generated domain".into());
                }
                bits_case(c.b(0), c.u(1) as u64, n)
            }
            "range" => {
                let (ln, lo) = c.z(2);
                let (hn, hi) = c.z(3);
                range_case(c.b(0), c.u(1) as u64, ln, lo, hn, hi)
            }
            "chacha" => chacha_vectors(),
            o => Err(format!("unknown op {}", o)),
        }
    }
    fn budget(&self, tier: Tier) -> Budget {
        match tier {
            Tier::Quick => Budget { release: 2_400_000, dbg: 800_000, workers: 8 },
            Tier::Thorough => Budget { release: 80_000_000, dbg: 20_000_000, workers: 16 },
        }
    }
    fn assumptions(&self) -> Vec<String> {
        vec![
            "rand 0.8's Fill for [u32] reads the byte stream and converts each word from little endian (that is what makes gen_biguint platform independent); the model reads the same bytes".into(),
            "gen_bigint is only required to be canonical and inside (-2^n, 2^n) (the property does not fix how sign bits are drawn)".into(),
        ]
    }
}
