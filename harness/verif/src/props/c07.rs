//! C07 — bitwise logic, shifts and bit queries follow infinite two's-complement semantics.
use crate::engine::*;
use crate::gen::{self, MAX};
use crate::lib_util::*;
use crate::refint::{Nat, RefInt};
use nbcase::{Arg, Case};
use num_bigint::{BigInt, BigUint};
use proptest::collection::vec;
use proptest::prelude::*;
use proptest::sample::select;

pub struct C07;

fn bitop_i(sa: bool, a: &[u64], sb: bool, b: &[u64]) -> Verdict {
    let (x, y) = (bi(sa, a), bi(sb, b));
    let (ra, rb) = (ri(sa, a), ri(sb, b));
    let and = ra.and(&rb);
    let or = ra.or(&rb);
    let xor = ra.xor(&rb);
    macro_rules! forms {
        ($op:tt, $opa:tt, $want:expr, $name:expr) => {{
            for (p, q, tag) in [(&x, &y, "a,b"), (&y, &x, "b,a")] {
                ctx(must_return("ref ref", || p $op q).and_then(|r| eq_bi(&r, $want)), &format!("BigInt &{} {} ({})", $name, "ref,ref", tag))?;
                ctx(must_return("val ref", || p.clone() $op q).and_then(|r| eq_bi(&r, $want)), &format!("BigInt {} {} ({})", $name, "val,ref", tag))?;
                ctx(must_return("ref val", || p $op q.clone()).and_then(|r| eq_bi(&r, $want)), &format!("BigInt {} {} ({})", $name, "ref,val", tag))?;
                ctx(must_return("val val", || p.clone() $op q.clone()).and_then(|r| eq_bi(&r, $want)), &format!("BigInt {} {} ({})", $name, "val,val", tag))?;
                ctx(must_return("assign ref", || { let mut t = p.clone(); t $opa q; t }).and_then(|r| eq_bi(&r, $want)), &format!("BigInt {} {} ({})", $name, "assign ref", tag))?;
                ctx(must_return("assign val", || { let mut t = p.clone(); t $opa q.clone(); t }).and_then(|r| eq_bi(&r, $want)), &format!("BigInt {} {} ({})", $name, "assign val", tag))?;
            }
        }};
    }
    forms!(&, &=, &and, "and");
    forms!(|, |=, &or, "or");
    forms!(^, ^=, &xor, "xor");
    ctx(must_return("!a", || !x.clone()).and_then(|r| eq_bi(&r, &ra.not())), "BigInt !a")?;
    ctx(must_return("!&a", || !&x).and_then(|r| eq_bi(&r, &ra.not())), "BigInt !&a")?;
    ctx(must_return("!b", || !&y).and_then(|r| eq_bi(&r, &rb.not())), "BigInt !&b")?;
    eq_bi(&x, &ra).map_err(|e| format!("borrowed operand changed: {}", e))?;
    let (la, lb) = (ra.mag.to_u64_digits().len(), rb.mag.to_u64_digits().len());
    let sc = match (ra.signum(), rb.signum()) {
        (-1, -1) => "sign(-,-)",
        (-1, 0) => "sign(-,0)",
        (-1, 1) => "sign(-,+)",
        (0, -1) => "sign(0,-)",
        (0, 0) => "sign(0,0)",
        (0, 1) => "sign(0,+)",
        (1, -1) => "sign(+,-)",
        (1, 0) => "sign(+,0)",
        _ => "sign(+,+)",
    };
    let neg_multi = (ra.neg && la >= 2) || (rb.neg && lb >= 2);
    Ok(Info::new(neg_multi)
        .class("bitop_bigint")
        .class(sc)
        .class_if(la == lb, "len_equal")
        .class_if(la < lb, "len_a_shorter")
        .class_if(la > lb, "len_a_longer")
        .class_if(ra.neg && ra.mag.trailing_zeros().map_or(false, |t| t >= 64), "negative_with_low_zero_digits")
        .class_if(and.mag.to_u64_digits().len() > la.max(lb), "result_needs_extra_digit"))
}

fn bitop_u(a: &[u64], b: &[u64]) -> Verdict {
    let (x, y) = (bu(a), bu(b));
    let (ra, rb) = (rn(a), rn(b));
    macro_rules! forms {
        ($op:tt, $opa:tt, $want:expr, $name:expr) => {{
            for (p, q, tag) in [(&x, &y, "a,b"), (&y, &x, "b,a")] {
                ctx(must_return("ref ref", || p $op q).and_then(|r| eq_bu(&r, $want)), &format!("BigUint {} ref,ref ({})", $name, tag))?;
                ctx(must_return("val ref", || p.clone() $op q).and_then(|r| eq_bu(&r, $want)), &format!("BigUint {} val,ref ({})", $name, tag))?;
                ctx(must_return("ref val", || p $op q.clone()).and_then(|r| eq_bu(&r, $want)), &format!("BigUint {} ref,val ({})", $name, tag))?;
                ctx(must_return("val val", || p.clone() $op q.clone()).and_then(|r| eq_bu(&r, $want)), &format!("BigUint {} val,val ({})", $name, tag))?;
                ctx(must_return("assign ref", || { let mut t = p.clone(); t $opa q; t }).and_then(|r| eq_bu(&r, $want)), &format!("BigUint {} assign ref ({})", $name, tag))?;
                ctx(must_return("assign val", || { let mut t = p.clone(); t $opa q.clone(); t }).and_then(|r| eq_bu(&r, $want)), &format!("BigUint {} assign val ({})", $name, tag))?;
            }
        }};
    }
    forms!(&, &=, &ra.and(&rb), "and");
    forms!(|, |=, &ra.or(&rb), "or");
    forms!(^, ^=, &ra.xor(&rb), "xor");
    let (la, lb) = (ra.to_u64_digits().len(), rb.to_u64_digits().len());
    Ok(Info::new(la >= 2 && lb >= 2 && la != lb)
        .class("bitop_biguint")
        .class_if(ra.xor(&rb).to_u64_digits().len() < la.max(lb), "result_shrinks"))
}

const LEFT_SHIFT_LIMIT: u128 = 8192;

fn shift_case(neg: bool, a: &[u64], k: i128, ku: u128, unsigned_big: bool) -> Verdict {
    // amount is `k` if it fits i128 else `ku` (for u128 amounts above i128::MAX)
    let x = bi(neg, a);
    let u = bu(a);
    let r = if unsigned_big { ri(false, a) } else { ri(neg, a) };
    let amount_neg = k < 0;
    let amount: u128 = if ku != 0 { ku } else { k.max(0) as u128 };
    let model_k = amount.min(r.mag.bits() as u128 + 130) as u64;
    let want_shr = r.shr_floor(model_k);
    let do_shl = r.is_zero() || amount <= LEFT_SHIFT_LIMIT;
    let want_shl = if do_shl { Some(if r.is_zero() { RefInt::zero() } else { r.shl(amount as u64) }) } else { None };
    let mut types_run = 0;
    macro_rules! run_type {
        ($($T:ty),*) => {$(
            let tv: Option<$T> = if ku != 0 { <$T>::try_from(ku).ok() } else { <$T>::try_from(k).ok() };
            if let Some(t) = tv {
                types_run += 1;
                let tn = stringify!($T);
                if unsigned_big {
                    if amount_neg {
                        ctx(must_panic("<<", || &u << t), &format!("&BigUint << negative {}", tn))?;
                        ctx(must_panic(">>", || &u >> t), &format!("&BigUint >> negative {}", tn))?;
                        ctx(must_panic("<<=", || { let mut v = u.clone(); v <<= t; v }), &format!("BigUint <<= negative {}", tn))?;
                        ctx(must_panic(">>=", || { let mut v = u.clone(); v >>= t; v }), &format!("BigUint >>= negative {}", tn))?;
                        ctx(must_panic("<< val", || u.clone() << t), &format!("BigUint << negative {}", tn))?;
                        ctx(must_panic(">> val", || u.clone() >> t), &format!("BigUint >> negative {}", tn))?;
                    } else {
                        let w = &want_shr.mag;
                        ctx(must_return(">>", || &u >> t).and_then(|v| eq_bu(&v, w)), &format!("&BigUint >> {} {}", t, tn))?;
                        ctx(must_return(">>", || u.clone() >> t).and_then(|v| eq_bu(&v, w)), &format!("BigUint >> {} {}", t, tn))?;
                        ctx(must_return(">>", || &u >> &t).and_then(|v| eq_bu(&v, w)), &format!("&BigUint >> &{} {}", t, tn))?;
                        ctx(must_return(">>", || u.clone() >> &t).and_then(|v| eq_bu(&v, w)), &format!("BigUint >> &{} {}", t, tn))?;
                        ctx(must_return(">>=", || { let mut v = u.clone(); v >>= t; v }).and_then(|v| eq_bu(&v, w)), &format!("BigUint >>= {} {}", t, tn))?;
                        ctx(must_return(">>=", || { let mut v = u.clone(); v >>= &t; v }).and_then(|v| eq_bu(&v, w)), &format!("BigUint >>= &{} {}", t, tn))?;
                        if let Some(ws) = &want_shl {
                            let w = &ws.mag;
                            ctx(must_return("<<", || &u << t).and_then(|v| eq_bu(&v, w)), &format!("&BigUint << {} {}", t, tn))?;
                            ctx(must_return("<<", || u.clone() << t).and_then(|v| eq_bu(&v, w)), &format!("BigUint << {} {}", t, tn))?;
                            ctx(must_return("<<", || &u << &t).and_then(|v| eq_bu(&v, w)), &format!("&BigUint << &{} {}", t, tn))?;
                            ctx(must_return("<<", || u.clone() << &t).and_then(|v| eq_bu(&v, w)), &format!("BigUint << &{} {}", t, tn))?;
                            ctx(must_return("<<=", || { let mut v = u.clone(); v <<= t; v }).and_then(|v| eq_bu(&v, w)), &format!("BigUint <<= {} {}", t, tn))?;
                            ctx(must_return("<<=", || { let mut v = u.clone(); v <<= &t; v }).and_then(|v| eq_bu(&v, w)), &format!("BigUint <<= &{} {}", t, tn))?;
                        }
                    }
                } else if amount_neg {
                    ctx(must_panic("<<", || &x << t), &format!("&BigInt << negative {}", tn))?;
                    ctx(must_panic(">>", || &x >> t), &format!("&BigInt >> negative {}", tn))?;
                    ctx(must_panic("<<=", || { let mut v = x.clone(); v <<= t; v }), &format!("BigInt <<= negative {}", tn))?;
                    ctx(must_panic(">>=", || { let mut v = x.clone(); v >>= t; v }), &format!("BigInt >>= negative {}", tn))?;
                    ctx(must_panic("<< val", || x.clone() << t), &format!("BigInt << negative {}", tn))?;
                    ctx(must_panic(">> val", || x.clone() >> t), &format!("BigInt >> negative {}", tn))?;
                } else {
                    let w = &want_shr;
                    ctx(must_return(">>", || &x >> t).and_then(|v| eq_bi(&v, w)), &format!("&BigInt >> {} {}", t, tn))?;
                    ctx(must_return(">>", || x.clone() >> t).and_then(|v| eq_bi(&v, w)), &format!("BigInt >> {} {}", t, tn))?;
                    ctx(must_return(">>", || &x >> &t).and_then(|v| eq_bi(&v, w)), &format!("&BigInt >> &{} {}", t, tn))?;
                    ctx(must_return(">>", || x.clone() >> &t).and_then(|v| eq_bi(&v, w)), &format!("BigInt >> &{} {}", t, tn))?;
                    ctx(must_return(">>=", || { let mut v = x.clone(); v >>= t; v }).and_then(|v| eq_bi(&v, w)), &format!("BigInt >>= {} {}", t, tn))?;
                    ctx(must_return(">>=", || { let mut v = x.clone(); v >>= &t; v }).and_then(|v| eq_bi(&v, w)), &format!("BigInt >>= &{} {}", t, tn))?;
                    if let Some(w) = &want_shl {
                        ctx(must_return("<<", || &x << t).and_then(|v| eq_bi(&v, w)), &format!("&BigInt << {} {}", t, tn))?;
                        ctx(must_return("<<", || x.clone() << t).and_then(|v| eq_bi(&v, w)), &format!("BigInt << {} {}", t, tn))?;
                        ctx(must_return("<<", || &x << &t).and_then(|v| eq_bi(&v, w)), &format!("&BigInt << &{} {}", t, tn))?;
                        ctx(must_return("<<", || x.clone() << &t).and_then(|v| eq_bi(&v, w)), &format!("BigInt << &{} {}", t, tn))?;
                        ctx(must_return("<<=", || { let mut v = x.clone(); v <<= t; v }).and_then(|v| eq_bi(&v, w)), &format!("BigInt <<= {} {}", t, tn))?;
                        ctx(must_return("<<=", || { let mut v = x.clone(); v <<= &t; v }).and_then(|v| eq_bi(&v, w)), &format!("BigInt <<= &{} {}", t, tn))?;
                    }
                }
            }
        )*};
    }
    run_type!(u8, u16, u32, u64, u128, usize, i8, i16, i32, i64, i128, isize);
    if types_run == 0 {
        return Err("harness: shift amount fits no type".into());
    }
    let tz = r.mag.trailing_zeros().unwrap_or(0) as u128;
    Ok(Info::new(!r.is_zero() && (amount >= 64 || amount_neg))
        .class(if unsigned_big { "shift_biguint" } else { "shift_bigint" })
        .class_if(amount_neg, "negative_amount")
        .class_if(amount % 64 == 0 && amount > 0, "whole_digit_shift")
        .class_if(amount > r.mag.bits() as u128, "beyond_length")
        .class_if(r.neg && amount > 0 && tz >= amount, "negative_shifted_out_bits_zero")
        .class_if(r.neg && amount > tz, "negative_floor_adjust")
        .class_if(amount > u64::MAX as u128, "amount_above_u64")
        .class_if(types_run >= 8, "amount_fits_many_types"))
}

fn bit_case(neg: bool, a: &[u64], i: u64, val: bool) -> Verdict {
    let x = bi(neg, a);
    let u = bu(a);
    let r = ri(neg, a);
    // queries
    let got = must_return("BigInt::bit", || x.bit(i))?;
    if got != r.bit(i) {
        return Err(format!("BigInt::bit({}) = {} but the two's-complement expansion has {}", i, got, r.bit(i)));
    }
    let got = must_return("BigUint::bit", || u.bit(i))?;
    if got != r.mag.bit(i) {
        return Err(format!("BigUint::bit({}) = {} want {}", i, got, r.mag.bit(i)));
    }
    if must_return("BigInt::bits", || x.bits())? != r.mag.bits() || u.bits() != r.mag.bits() {
        return Err(format!("bits(): got {} / {} want {}", x.bits(), u.bits(), r.mag.bits()));
    }
    if x.trailing_zeros() != r.mag.trailing_zeros() || u.trailing_zeros() != r.mag.trailing_zeros() {
        return Err(format!("trailing_zeros(): got {:?} / {:?} want {:?}", x.trailing_zeros(), u.trailing_zeros(), r.mag.trailing_zeros()));
    }
    if must_return("trailing_ones", || u.trailing_ones())? != r.mag.trailing_ones() {
        return Err(format!("BigUint::trailing_ones(): got {} want {}", u.trailing_ones(), r.mag.trailing_ones()));
    }
    if must_return("count_ones", || u.count_ones())? != r.mag.count_ones() {
        return Err(format!("BigUint::count_ones(): got {} want {}", u.count_ones(), r.mag.count_ones()));
    }
    // updates (bounded index so the result fits in memory)
    let set_ok = i <= (r.mag.bits() + 4096);
    if set_ok {
        let want = r.set_bit(i, val);
        ctx(must_return("BigInt::set_bit", || { let mut t = x.clone(); t.set_bit(i, val); t }).and_then(|t| eq_bi(&t, &want)), &format!("BigInt::set_bit({}, {})", i, val))?;
        let mut wm = r.mag.clone();
        wm.set_bit(i, val);
        ctx(must_return("BigUint::set_bit", || { let mut t = u.clone(); t.set_bit(i, val); t }).and_then(|t| eq_bu(&t, &wm)), &format!("BigUint::set_bit({}, {})", i, val))?;
        // and the bit reads back
        let mut t = x.clone();
        t.set_bit(i, val);
        if t.bit(i) != val {
            return Err(format!("BigInt: bit({}) after set_bit({}, {}) reads {}", i, i, val, t.bit(i)));
        }
    } else if val && r.neg {
        // a far bit of a negative value is already 1 in the two's-complement expansion: setting it is a no-op
        if !r.bit(i) {
            crate::refint::oracle_error("model: far bit of a negative value is not set");
        }
        ctx(must_return("BigInt::set_bit far set", || { let mut t = x.clone(); t.set_bit(i, true); t }).and_then(|t| eq_bi(&t, &r)), "BigInt::set_bit(far, true) on a negative value")?;
    } else if !val {
        // clearing a far bit of a non-negative value is a no-op that needs no memory
        if !r.neg {
            ctx(must_return("BigInt::set_bit far clear", || { let mut t = x.clone(); t.set_bit(i, false); t }).and_then(|t| eq_bi(&t, &r)), "BigInt::set_bit(far, false)")?;
        }
        ctx(must_return("BigUint::set_bit far clear", || { let mut t = u.clone(); t.set_bit(i, false); t }).and_then(|t| eq_bu(&t, &r.mag)), "BigUint::set_bit(far, false)")?;
    }
    let tz = r.mag.trailing_zeros();
    let nlen = r.mag.to_u64_digits().len() as u64;
    let sub = if !r.neg {
        "set_bit_on_nonnegative"
    } else {
        match tz {
            Some(t) if i < t => "neg: index below lowest set bit",
            Some(t) if i == t => "neg: index at lowest set bit",
            _ if i >= nlen * 64 => "neg: index beyond top digit",
            Some(t) if i / 64 == t / 64 => "neg: index above lowest set bit, same digit",
            _ => "neg: index in a higher digit",
        }
    };
    Ok(Info::new(r.neg && set_ok).class("bit_query_update").class(sub).class_if(val, "set").class_if(!val, "clear"))
}

/// operands for bit operations: powers of two, -(B^k), B^k-1, long trailing zero / one runs
pub fn bit_nat(max_len: usize) -> BoxedStrategy<Vec<u64>> {
    prop_oneof![
        30 => gen::nat(max_len),
        10 => (0u64..=(max_len as u64 * 64)).prop_map(|k| Nat::pow2(k).to_u64_digits()),
        10 => (0usize..=max_len).prop_map(|k| { let mut v = vec![0; k]; v.push(1); v }),
        10 => (0usize..=max_len).prop_map(|k| vec![MAX; k]),
        15 => (0usize..=max_len, vec(gen::digit(), 0..=3)).prop_map(|(z, hi)| { let mut v = vec![0u64; z]; v.extend(hi); gen::trim(v) }),
        15 => (0usize..=max_len, vec(gen::digit(), 0..=3)).prop_map(|(z, hi)| { let mut v = vec![MAX; z]; v.extend(hi); gen::trim(v) }),
        10 => (0usize..=max_len, 0u32..64, vec(gen::digit(), 0..=2)).prop_map(|(z, s, hi)| {
            // trailing zeros ending inside a digit
            let mut v = vec![0u64; z]; v.push(1u64 << s); v.extend(hi); gen::trim(v)
        }),
    ]
    .boxed()
}

fn amount() -> BoxedStrategy<(i128, u128)> {
    prop_oneof![
        50 => gen::shift_amount(12).prop_map(|k| (k as i128, 0u128)),
        10 => (1i128..=200).prop_map(|k| (-k, 0u128)),
        5 => select(vec![i8::MIN as i128, i16::MIN as i128, i32::MIN as i128, i64::MIN as i128, i128::MIN, -1]).prop_map(|k| (k, 0u128)),
        15 => select(vec![i8::MAX as i128, u8::MAX as i128, i16::MAX as i128, u16::MAX as i128, i32::MAX as i128, u32::MAX as i128, i64::MAX as i128, u64::MAX as i128, i128::MAX,
                          (u32::MAX as i128) + 1, (u64::MAX as i128) + 1, 8191, 8192, 8193]).prop_map(|k| (k, 0u128)),
        5 => select(vec![u128::MAX, (i128::MAX as u128) + 1, u128::MAX - 63]).prop_map(|k| (0i128, k)),
        15 => (0u64..=900).prop_map(|k| (k as i128, 0u128)),
    ]
    .boxed()
}

/// bit index relative to the value: around the lowest set bit, digit edges, the top, beyond
pub fn bit_index(a: &[u64], sel: u8, off: u64, far: u64) -> u64 {
    let n = Nat::from_u64_digits(a);
    let tz = n.trailing_zeros().unwrap_or(0);
    let len = n.to_u64_digits().len() as u64;
    match sel % 12 {
        0 => tz.saturating_sub(1 + off % 3),
        1 => tz,
        2 => tz + 1 + off % 3,
        3 => (tz / 64) * 64 + off % 64,
        4 => (tz / 64 + 1) * 64 + off % 64,
        5 => n.bits().saturating_sub(1),
        6 => n.bits(),
        7 => len * 64 + off % 130,
        8 => (len * 64).saturating_sub(1 + off % 3),
        9 => off % (len * 64 + 1),
        10 => u64::MAX - far % 1000,
        _ => far,
    }
}

impl Property for C07 {
    fn id(&self) -> &'static str {
        "C07"
    }
    fn rule(&self) -> &'static str {
        "Cases: bitop.i (BigInt & | ^ in 6 forms x both operand orders, plus !) over all nine sign pairs with equal and unequal lengths 0..12 digits (quick) / ..80 (thorough); bitop.u (BigUint); shift.i / shift.u (<< >> <<= >>= by value and by reference for every one of the 12 primitive amount types that can hold the amount: 0,1,63,64,65, multiples of 64 +-1, beyond the length, each type's MAX, u128 amounts above i128::MAX, and negative amounts which must panic; left shifts of non-zero values bounded to 8192 bits); bit (bit, set_bit true/false, bits, trailing_zeros, trailing_ones, count_ones with the index chosen relative to the value: below/at/above the lowest set bit, same/next digit, top bit, len*64 +- k, far beyond for reads). Operands emphasise powers of two, -(B^k), B^k-1 and long trailing zero/one runs. Oracle: RefInt with ~x = -x-1 and De Morgan duals, x<<k = x*2^k, x>>k = floor division, direct bit counting. Non-trivial: a negative operand of >= 2 digits (bitop), a shift of >= 64 or a negative amount on a non-zero value, a set_bit on a negative value."
    }
    fn strategy(&self, tier: Tier) -> BoxedStrategy<Case> {
        let ml = match tier {
            Tier::Quick => 12,
            Tier::Thorough => 80,
        };
        prop_oneof![
            35 => (any::<bool>(), bit_nat(ml), any::<bool>(), bit_nat(ml)).prop_map(|(sa, a, sb, b)| Case::new("bitop.i", vec![Arg::Z(sa, a), Arg::Z(sb, b)])),
            8 => (bit_nat(ml), bit_nat(ml)).prop_map(|(a, b)| Case::new("bitop.u", vec![Arg::N(a), Arg::N(b)])),
            14 => (any::<bool>(), bit_nat(ml), amount()).prop_map(|(s, a, (k, ku))| Case::new("shift.i", vec![Arg::Z(s, a), Arg::I(k), Arg::U(ku)])),
            // amounts relative to the value: around its bit length, its digit count and its trailing-zero count
            6 => (any::<bool>(), bit_nat(ml), 0u8..12, 0i128..3).prop_map(|(s, a, sel, d)| {
                let n = Nat::from_u64_digits(&a);
                let (bits, tz, len) = (n.bits() as i128, n.trailing_zeros().unwrap_or(0) as i128, n.to_u64_digits().len() as i128);
                let k = match sel { 0 => bits - 1 + d, 1 => bits - 2 + d, 2 => tz - 1 + d, 3 => tz + d, 4 => len * 64 - 1 + d, 5 => (len - 1) * 64 - 1 + d, 6 => bits + 63 + d, 7 => tz + 63 + d, 8 => bits / 2 + d, 9 => (tz / 64) * 64 + d, 10 => bits - 64 + d, _ => bits + d };
                Case::new("shift.i", vec![Arg::Z(s, a), Arg::I(k.max(0)), Arg::U(0)])
            }),
            8 => (bit_nat(ml), amount()).prop_map(|(a, (k, ku))| Case::new("shift.u", vec![Arg::N(a), Arg::I(k), Arg::U(ku)])),
            29 => (prop_oneof![65 => Just(true), 35 => Just(false)], bit_nat(ml), any::<u8>(), any::<u64>(), any::<u64>(), any::<bool>()).prop_map(|(s, a, sel, off, far, v)| {
                let i = bit_index(&a, sel, off, far);
                Case::new("bit", vec![Arg::Z(s, a), Arg::U(i as u128), Arg::I(v as i128)])
            }),
        ]
        .boxed()
    }
    fn check(&self, c: &Case) -> Verdict {
        match c.op.as_str() {
            "bitop.i" => {
                let (sa, a) = c.z(0);
                let (sb, b) = c.z(1);
                bitop_i(sa, a, sb, b)
            }
            "bitop.u" => bitop_u(c.n(0), c.n(1)),
            "shift.i" => {
                let (s, a) = c.z(0);
                shift_case(s, a, c.i(1), c.u(2), false)
            }
            "shift.u" => shift_case(false, c.n(0), c.i(1), c.u(2), true),
            "bit" => {
                let (s, a) = c.z(0);
                bit_case(s, a, c.u(1) as u64, c.i(2) != 0)
            }
            o => Err(format!("unknown op {}", o)),
        }
    }
    fn budget(&self, tier: Tier) -> Budget {
        match tier {
            Tier::Quick => Budget { release: 2_400_000, dbg: 800_000, workers: 8 },
            Tier::Thorough => Budget { release: 96_000_000, dbg: 24_000_000, workers: 16 },
        }
    }
    fn assumptions(&self) -> Vec<String> {
        vec![
            "RefInt two's-complement model (~x = -x-1 with De Morgan duals) is cross-checked against CPython's & | ^ ~ >> <<".into(),
            "left shifts of non-zero values above 8192 bits and set_bit beyond bits()+4096 are not run (memory-exhaustion scope exclusion of the property)".into(),
        ]
    }
}

#[allow(dead_code)]
fn _t(_: &BigInt, _: &BigUint) {}
