//! C10 — every overloaded operator form agrees with the canonical big-by-big operation.
//!
//! Differential, in-process: the canonical form is `&A op &B` with the scalar losslessly
//! converted; every other form must return an equal (and canonical) value or panic in the same
//! cases.  The canonical forms themselves are decided against RefInt by C01-C03, C07, C12.
use crate::engine::*;
use crate::gen;
use crate::lib_util::*;
use nbcase::{Arg, Case};
use num_bigint::{BigInt, BigUint};
use num_traits::{CheckedAdd, CheckedDiv, CheckedMul, CheckedSub, Pow};
use proptest::prelude::*;
use std::cell::RefCell;
use std::collections::BTreeSet;

pub struct C10;

thread_local! {
    /// distinct form families executed by this worker (reported through classes)
    static FORMS: RefCell<BTreeSet<&'static str>> = RefCell::new(BTreeSet::new());
}

fn canon_u(v: &BigUint) -> Result<(), String> {
    eq_bu(v, &nat_of_bu(v))
}
fn canon_i(v: &BigInt) -> Result<(), String> {
    eq_bi(v, &ref_of_bi(v))
}

/// compare one form with the canonical outcome
fn agree<T: PartialEq + std::fmt::Debug>(
    form: &str,
    canon: &Result<T, String>,
    got: Result<T, String>,
    canonical_form: impl Fn(&T) -> Result<(), String>,
) -> Result<(), String> {
    match (canon, got) {
        (Ok(c), Ok(g)) => {
            canonical_form(&g).map_err(|e| format!("form `{}`: {}", form, e))?;
            if *c != g {
                return Err(format!("form `{}` returned {} but the canonical ref-by-ref operation returns {}", form, trunc(&format!("{:?}", g), 200), trunc(&format!("{:?}", c), 200)));
            }
            Ok(())
        }
        (Err(_), Err(_)) => Ok(()),
        (Ok(c), Err(p)) => Err(format!("form `{}` panicked ({:?}) but the canonical operation returns {}", form, p, trunc(&format!("{:?}", c), 200))),
        (Err(p), Ok(g)) => Err(format!("form `{}` returned {} but the canonical operation panics ({:?})", form, trunc(&format!("{:?}", g), 200), p)),
    }
}

macro_rules! binop_forms {
    // big (op) big in all val/ref combinations plus assign; $canon_fn checks canonical form
    ($x:expr, $y:expr, $op:tt, $opa:tt, $name:expr, $cf:expr) => {{
        let c = catch(|| &$x $op &$y);
        agree(concat!("a ", $name, " &b (val,ref)"), &c, catch(|| $x.clone() $op &$y), $cf)?;
        agree(concat!("&a ", $name, " b (ref,val)"), &c, catch(|| &$x $op $y.clone()), $cf)?;
        agree(concat!("a ", $name, " b (val,val)"), &c, catch(|| $x.clone() $op $y.clone()), $cf)?;
        agree(concat!("a ", $name, "= &b"), &c, catch(|| { let mut t = $x.clone(); t $opa &$y; t }), $cf)?;
        agree(concat!("a ", $name, "= b"), &c, catch(|| { let mut t = $x.clone(); t $opa $y.clone(); t }), $cf)?;
        agree(concat!("&a ", $name, " &b (canonical itself, canonical-form check)"), &c, catch(|| &$x $op &$y), $cf)?;
    }};
}

macro_rules! scalar_forms {
    // $Big: BigUint|BigInt, $x: big value, $t: scalar value of type $T
    ($Big:ty, $x:expr, $t:expr, $T:ty, $op:tt, $opa:tt, $name:expr, $cf:expr) => {{
        let t: $T = $t;
        let bt = <$Big>::from(t);
        let c = catch(|| &$x $op &bt);
        let cr = catch(|| &bt $op &$x);
        agree(concat!("&big ", $name, " ", stringify!($T)), &c, catch(|| &$x $op t), $cf)?;
        agree(concat!("big ", $name, " ", stringify!($T)), &c, catch(|| $x.clone() $op t), $cf)?;
        agree(concat!("&big ", $name, " &", stringify!($T)), &c, catch(|| &$x $op &t), $cf)?;
        agree(concat!("big ", $name, " &", stringify!($T)), &c, catch(|| $x.clone() $op &t), $cf)?;
        agree(concat!("big ", $name, "= ", stringify!($T)), &c, catch(|| { let mut v = $x.clone(); v $opa t; v }), $cf)?;
        agree(concat!(stringify!($T), " ", $name, " &big"), &cr, catch(|| t $op &$x), $cf)?;
        agree(concat!(stringify!($T), " ", $name, " big"), &cr, catch(|| t $op $x.clone()), $cf)?;
        agree(concat!("&", stringify!($T), " ", $name, " &big"), &cr, catch(|| &t $op &$x), $cf)?;
        agree(concat!("&", stringify!($T), " ", $name, " big"), &cr, catch(|| &t $op $x.clone()), $cf)?;
    }};
}

macro_rules! scalar_all_ops {
    ($Big:ty, $x:expr, $s:expr, $cf:expr, $fam:expr, $($T:ty),*) => {$(
        if let Ok(t) = <$T>::try_from($s) {
            FORMS.with(|f| { f.borrow_mut().insert(concat!($fam, " x ", stringify!($T), " {+,-,*,/,%} x {big op T, T op big} x {val,ref}^2 + op-assign")); });
            scalar_forms!($Big, $x, t, $T, +, +=, "+", $cf);
            scalar_forms!($Big, $x, t, $T, -, -=, "-", $cf);
            scalar_forms!($Big, $x, t, $T, *, *=, "*", $cf);
            scalar_forms!($Big, $x, t, $T, /, /=, "/", $cf);
            scalar_forms!($Big, $x, t, $T, %, %=, "%", $cf);
        }
    )*};
}

/// `T %= big` and `T %= &big` for every primitive type: must equal BigInt(T) % BigInt(big)
macro_rules! rem_assign_into_prim {
    ($u:expr, $s:expr, $($T:ty),*) => {$(
        if let Ok(t) = <$T>::try_from($s) {
            FORMS.with(|f| { f.borrow_mut().insert(concat!(stringify!($T), " %= BigUint (val, ref)")); });
            let c = catch(|| &BigInt::from(t) % &BigInt::from($u.clone()));
            let conv = |v: $T| BigInt::from(v);
            agree(concat!(stringify!($T), " %= &BigUint"), &c, catch(|| { let mut v = t; v %= &$u; conv(v) }), canon_i)?;
            agree(concat!(stringify!($T), " %= BigUint"), &c, catch(|| { let mut v = t; v %= $u.clone(); conv(v) }), canon_i)?;
        }
    )*};
}

macro_rules! shift_forms {
    ($x:expr, $k:expr, $cf:expr, $fam:expr, $($T:ty),*) => {$(
        if let Ok(t) = <$T>::try_from($k) {
            FORMS.with(|f| { f.borrow_mut().insert(concat!($fam, " {<<,>>} x ", stringify!($T), " x {val,ref}^2 + assign")); });
            let c = catch(|| &$x << ($k as u128 as usize));
            agree(concat!("&a << ", stringify!($T)), &c, catch(|| &$x << t), $cf)?;
            agree(concat!("a << ", stringify!($T)), &c, catch(|| $x.clone() << t), $cf)?;
            agree(concat!("&a << &", stringify!($T)), &c, catch(|| &$x << &t), $cf)?;
            agree(concat!("a << &", stringify!($T)), &c, catch(|| $x.clone() << &t), $cf)?;
            agree(concat!("a <<= ", stringify!($T)), &c, catch(|| { let mut v = $x.clone(); v <<= t; v }), $cf)?;
            agree(concat!("a <<= &", stringify!($T)), &c, catch(|| { let mut v = $x.clone(); v <<= &t; v }), $cf)?;
            let c = catch(|| &$x >> ($k as u128 as usize));
            agree(concat!("&a >> ", stringify!($T)), &c, catch(|| &$x >> t), $cf)?;
            agree(concat!("a >> ", stringify!($T)), &c, catch(|| $x.clone() >> t), $cf)?;
            agree(concat!("&a >> &", stringify!($T)), &c, catch(|| &$x >> &t), $cf)?;
            agree(concat!("a >> &", stringify!($T)), &c, catch(|| $x.clone() >> &t), $cf)?;
            agree(concat!("a >>= ", stringify!($T)), &c, catch(|| { let mut v = $x.clone(); v >>= t; v }), $cf)?;
            agree(concat!("a >>= &", stringify!($T)), &c, catch(|| { let mut v = $x.clone(); v >>= &t; v }), $cf)?;
        }
    )*};
}

macro_rules! pow_forms {
    ($x:expr, $e:expr, $cf:expr, $fam:expr, $($T:ty),*) => {$(
        if let Ok(t) = <$T>::try_from($e) {
            FORMS.with(|f| { f.borrow_mut().insert(concat!($fam, " pow x ", stringify!($T), " x {val,ref}^2")); });
            let be = BigUint::from($e as u64);
            let c = catch(|| Pow::pow(&$x, &be));
            agree(concat!("Pow::pow(&a, ", stringify!($T), ")"), &c, catch(|| Pow::pow(&$x, t)), $cf)?;
            agree(concat!("Pow::pow(a, ", stringify!($T), ")"), &c, catch(|| Pow::pow($x.clone(), t)), $cf)?;
            agree(concat!("Pow::pow(&a, &", stringify!($T), ")"), &c, catch(|| Pow::pow(&$x, &t)), $cf)?;
            agree(concat!("Pow::pow(a, &", stringify!($T), ")"), &c, catch(|| Pow::pow($x.clone(), &t)), $cf)?;
        }
    )*};
}

fn big_big(sa: bool, a: &[u64], sb: bool, b: &[u64]) -> Verdict {
    let (mut x, mut y) = (bi(sa, a), bi(sb, b));
    let (mut ux, mut uy) = (bu(a), bu(b));
    // in a third of the cases one operand (or both) carries spare capacity from an earlier, larger value, so that
    // buffer-reuse choices made by capacity differ from the length order
    let slack = a.first().map_or(0, |d| d % 3) + 2 * b.first().map_or(0, |d| (d >> 1) % 2);
    if slack & 1 == 1 {
        x <<= 900u32; x >>= 900u32; ux <<= 900u32; ux >>= 900u32;
    }
    if slack & 2 == 2 {
        y <<= 900u32; y >>= 900u32; uy <<= 900u32; uy >>= 900u32;
    }
    let (x, y, ux, uy) = (x, y, ux, uy);
    FORMS.with(|f| {
        f.borrow_mut().insert("BigInt {+,-,*,/,%,&,|,^} x {val,ref}^2 + op-assign(val,ref)");
        f.borrow_mut().insert("BigUint {+,-,*,/,%,&,|,^} x {val,ref}^2 + op-assign(val,ref)");
        f.borrow_mut().insert("checked_add/sub/mul/div (BigInt, BigUint)");
    });
    binop_forms!(x, y, +, +=, "+", canon_i);
    binop_forms!(x, y, -, -=, "-", canon_i);
    binop_forms!(x, y, *, *=, "*", canon_i);
    binop_forms!(x, y, /, /=, "/", canon_i);
    binop_forms!(x, y, %, %=, "%", canon_i);
    binop_forms!(x, y, &, &=, "&", canon_i);
    binop_forms!(x, y, |, |=, "|", canon_i);
    binop_forms!(x, y, ^, ^=, "^", canon_i);
    binop_forms!(ux, uy, +, +=, "+", canon_u);
    binop_forms!(ux, uy, -, -=, "-", canon_u);
    binop_forms!(ux, uy, *, *=, "*", canon_u);
    binop_forms!(ux, uy, /, /=, "/", canon_u);
    binop_forms!(ux, uy, %, %=, "%", canon_u);
    binop_forms!(ux, uy, &, &=, "&", canon_u);
    binop_forms!(ux, uy, |, |=, "|", canon_u);
    binop_forms!(ux, uy, ^, ^=, "^", canon_u);
    // checked_* : Some(canonical) or None exactly where the canonical operation panics
    let opt = |form: &str, c: Result<BigInt, String>, g: Result<Option<BigInt>, String>| -> Result<(), String> {
        match (c, g) {
            (_, Err(p)) => Err(format!("{} panicked: {:?}", form, p)),
            (Ok(c), Ok(Some(g))) => {
                canon_i(&g)?;
                if c != g { Err(format!("{} = {} differs from the operator result {}", form, g, c)) } else { Ok(()) }
            }
            (Err(_), Ok(None)) => Ok(()),
            (Ok(c), Ok(None)) => Err(format!("{} returned None but the operator returns {}", form, c)),
            (Err(p), Ok(Some(g))) => Err(format!("{} returned Some({}) but the operator panics ({:?})", form, g, p)),
        }
    };
    opt("BigInt::checked_add", catch(|| &x + &y), catch(|| CheckedAdd::checked_add(&x, &y)))?;
    opt("BigInt::checked_sub", catch(|| &x - &y), catch(|| CheckedSub::checked_sub(&x, &y)))?;
    opt("BigInt::checked_mul", catch(|| &x * &y), catch(|| CheckedMul::checked_mul(&x, &y)))?;
    opt("BigInt::checked_div", catch(|| &x / &y), catch(|| CheckedDiv::checked_div(&x, &y)))?;
    opt("BigInt::checked_add (inherent)", catch(|| &x + &y), catch(|| x.checked_add(&y)))?;
    opt("BigInt::checked_sub (inherent)", catch(|| &x - &y), catch(|| x.checked_sub(&y)))?;
    opt("BigInt::checked_mul (inherent)", catch(|| &x * &y), catch(|| x.checked_mul(&y)))?;
    opt("BigInt::checked_div (inherent)", catch(|| &x / &y), catch(|| x.checked_div(&y)))?;
    let optu = |form: &str, c: Result<BigUint, String>, g: Result<Option<BigUint>, String>| -> Result<(), String> {
        match (c, g) {
            (_, Err(p)) => Err(format!("{} panicked: {:?}", form, p)),
            (Ok(c), Ok(Some(g))) => {
                canon_u(&g)?;
                if c != g { Err(format!("{} = {} differs from the operator result {}", form, g, c)) } else { Ok(()) }
            }
            (Err(_), Ok(None)) => Ok(()),
            (Ok(c), Ok(None)) => Err(format!("{} returned None but the operator returns {}", form, c)),
            (Err(p), Ok(Some(g))) => Err(format!("{} returned Some({}) but the operator panics ({:?})", form, g, p)),
        }
    };
    optu("BigUint::checked_add", catch(|| &ux + &uy), catch(|| ux.checked_add(&uy)))?;
    optu("BigUint::checked_sub", catch(|| &ux - &uy), catch(|| ux.checked_sub(&uy)))?;
    optu("BigUint::checked_mul", catch(|| &ux * &uy), catch(|| ux.checked_mul(&uy)))?;
    optu("BigUint::checked_div", catch(|| &ux / &uy), catch(|| ux.checked_div(&uy)))?;
    Ok(Info::new(!a.is_empty() && !b.is_empty()).class("big_big_forms"))
}

fn scalar_case(sa: bool, a: &[u64], s: i128) -> Verdict {
    let x = bi(sa, a);
    let u = bu(a);
    scalar_all_ops!(BigInt, x, s, canon_i, "BigInt", i8, i16, i32, i64, isize, i128, u8, u16, u32, u64, usize, u128);
    if s >= 0 {
        scalar_all_ops!(BigUint, u, s, canon_u, "BigUint", u8, u16, u32, u64, usize, u128);
    }
    rem_assign_into_prim!(u, s, i8, i16, i32, i64, isize, i128, u8, u16, u32, u64, usize, u128);
    Ok(Info::new(!a.is_empty() && s != 0)
        .class("scalar_forms")
        .class_if(s < 0, "negative_scalar")
        .class_if(s.unsigned_abs() > u64::MAX as u128, "scalar_needs_two_digits")
        .class_if([i8::MIN as i128, i16::MIN as i128, i32::MIN as i128, i64::MIN as i128, i128::MIN].contains(&s), "scalar_is_a_MIN"))
}

fn scalar_case_u(a: &[u64], s: u128) -> Verdict {
    // u128 values above i128::MAX
    let x = bi(false, a);
    let xn = bi(true, a);
    let u = bu(a);
    scalar_all_ops!(BigInt, x, s, canon_i, "BigInt", u128);
    scalar_all_ops!(BigInt, xn, s, canon_i, "BigInt", u128);
    scalar_all_ops!(BigUint, u, s, canon_u, "BigUint", u128);
    rem_assign_into_prim!(u, s, u128);
    Ok(Info::new(!a.is_empty()).class("scalar_forms").class("u128_above_i128_max"))
}

fn shiftpow_case(sa: bool, a: &[u64], k: u64) -> Verdict {
    let x = bi(sa, a);
    let u = bu(a);
    let ks = (k % 600) as i128;
    shift_forms!(x, ks, canon_i, "BigInt", u8, u16, u32, u64, u128, usize, i8, i16, i32, i64, i128, isize);
    shift_forms!(u, ks, canon_u, "BigUint", u8, u16, u32, u64, u128, usize, i8, i16, i32, i64, i128, isize);
    // right shifts by amounts far beyond the length (any type wide enough): floor(x / 2^k) no longer
    // depends on k once k exceeds the bit length, so `>> (bits + 1)` is the canonical form
    if k >= 600 {
        let big = k as i128 * 0x1_0000_0001 + (1i128 << 70) * ((k % 3) as i128);
        let sat = (x.bits() + 1) as usize;
        macro_rules! far_shr {
            ($v:expr, $cf:expr, $($T:ty),*) => {$(
                for amt in [k as i128, big, <$T>::MAX as i128] {
                    if let Ok(t) = <$T>::try_from(amt) {
                        if amt as u128 > sat as u128 {
                            let c = catch(|| &$v >> sat);
                            agree(concat!("&a >> far ", stringify!($T)), &c, catch(|| &$v >> t), $cf)?;
                            agree(concat!("a >> far ", stringify!($T)), &c, catch(|| $v.clone() >> t), $cf)?;
                            agree(concat!("a >>= far ", stringify!($T)), &c, catch(|| { let mut w = $v.clone(); w >>= t; w }), $cf)?;
                            agree(concat!("&a >> &far ", stringify!($T)), &c, catch(|| &$v >> &t), $cf)?;
                        }
                    }
                }
            )*};
        }
        far_shr!(x, canon_i, u16, u32, u64, u128, usize, i16, i32, i64, i128, isize);
        far_shr!(u, canon_u, u16, u32, u64, u128, usize, i16, i32, i64, i128, isize);
        // u128 amounts above i128::MAX
        let c = catch(|| &x >> sat);
        agree("&a >> u128::MAX", &c, catch(|| &x >> u128::MAX), canon_i)?;
        agree("a >>= u128::MAX", &c, catch(|| { let mut w = x.clone(); w >>= u128::MAX; w }), canon_i)?;
        FORMS.with(|f| { f.borrow_mut().insert("BigInt/BigUint >> amounts beyond the length in every type wide enough (incl. type MAX)"); });
    }
    let e = (k % 40) as i128;
    pow_forms!(x, e, canon_i, "BigInt", u8, u16, u32, u64, usize, u128);
    pow_forms!(u, e, canon_u, "BigUint", u8, u16, u32, u64, usize, u128);
    FORMS.with(|f| {
        f.borrow_mut().insert("BigInt/BigUint pow x BigUint x {val,ref}^2 + inherent pow(u32)");
    });
    let be = BigUint::from(e as u64);
    let c = catch(|| Pow::pow(&x, &be));
    agree("Pow::pow(a, BigUint)", &c, catch(|| Pow::pow(x.clone(), be.clone())), canon_i)?;
    agree("Pow::pow(&a, BigUint)", &c, catch(|| Pow::pow(&x, be.clone())), canon_i)?;
    agree("Pow::pow(a, &BigUint)", &c, catch(|| Pow::pow(x.clone(), &be)), canon_i)?;
    agree("BigInt::pow(u32)", &c, catch(|| BigInt::pow(&x, e as u32)), canon_i)?;
    let c = catch(|| Pow::pow(&u, &be));
    agree("Pow::pow(a, BigUint)", &c, catch(|| Pow::pow(u.clone(), be.clone())), canon_u)?;
    agree("Pow::pow(&a, BigUint)", &c, catch(|| Pow::pow(&u, be.clone())), canon_u)?;
    agree("Pow::pow(a, &BigUint)", &c, catch(|| Pow::pow(u.clone(), &be)), canon_u)?;
    agree("BigUint::pow(u32)", &c, catch(|| BigUint::pow(&u, e as u32)), canon_u)?;
    // BigUint exponents beyond u64 / u128 (only bases 0 and +-1 keep the result representable): every val/ref form
    // must agree with the canonical `Pow::pow(&a, &e)`
    if a.len() <= 1 && a.first().map_or(true, |d| *d == 1) {
        for ed in [vec![0u64, 1], vec![1, 1], vec![0, 0, 1], vec![1, 0, 1], vec![u64::MAX, u64::MAX], vec![5, 0, 0, 2]] {
            let be = bu(&ed);
            let c = catch(|| Pow::pow(&x, &be));
            agree("Pow::pow(a, huge BigUint)", &c, catch(|| Pow::pow(x.clone(), be.clone())), canon_i)?;
            agree("Pow::pow(&a, huge BigUint)", &c, catch(|| Pow::pow(&x, be.clone())), canon_i)?;
            agree("Pow::pow(a, &huge BigUint)", &c, catch(|| Pow::pow(x.clone(), &be)), canon_i)?;
            let c = catch(|| Pow::pow(&u, &be));
            agree("Pow::pow(a, huge BigUint) [BigUint]", &c, catch(|| Pow::pow(u.clone(), be.clone())), canon_u)?;
            agree("Pow::pow(&a, huge BigUint) [BigUint]", &c, catch(|| Pow::pow(&u, be.clone())), canon_u)?;
            agree("Pow::pow(a, &huge BigUint) [BigUint]", &c, catch(|| Pow::pow(u.clone(), &be)), canon_u)?;
            if c.is_err() {
                return Err("canonical Pow::pow(&a, &huge exponent) panicked for a base in {0, 1, -1}".into());
            }
        }
        FORMS.with(|f| { f.borrow_mut().insert("Pow x BigUint exponents beyond u64/u128 (bases 0, +-1) x {val,ref}^2"); });
    }
    Ok(Info::new(!a.is_empty() && k > 0).class("shift_and_pow_forms"))
}

fn sumprod_case(items: &[Arg], scalars: &[Arg]) -> Verdict {
    FORMS.with(|f| {
        f.borrow_mut().insert("Sum/Product over iterators of values, references and scalars (BigInt, BigUint)");
    });
    let vals: Vec<BigInt> = items.iter().map(|a| { let (s, d) = a.as_z(); bi(s, d) }).collect();
    let uvals: Vec<BigUint> = items.iter().map(|a| bu(a.as_z().1)).collect();
    let fold_sum = catch(|| vals.iter().fold(BigInt::from(0), |acc, v| &acc + v));
    let fold_prod = catch(|| vals.iter().fold(BigInt::from(1), |acc, v| &acc * v));
    agree("Sum<&BigInt>", &fold_sum, catch(|| vals.iter().sum::<BigInt>()), canon_i)?;
    agree("Sum<BigInt>", &fold_sum, catch(|| vals.iter().cloned().sum::<BigInt>()), canon_i)?;
    agree("Product<&BigInt>", &fold_prod, catch(|| vals.iter().product::<BigInt>()), canon_i)?;
    agree("Product<BigInt>", &fold_prod, catch(|| vals.iter().cloned().product::<BigInt>()), canon_i)?;
    let ufold_sum = catch(|| uvals.iter().fold(BigUint::from(0u8), |acc, v| &acc + v));
    let ufold_prod = catch(|| uvals.iter().fold(BigUint::from(1u8), |acc, v| &acc * v));
    agree("Sum<&BigUint>", &ufold_sum, catch(|| uvals.iter().sum::<BigUint>()), canon_u)?;
    agree("Sum<BigUint>", &ufold_sum, catch(|| uvals.iter().cloned().sum::<BigUint>()), canon_u)?;
    agree("Product<&BigUint>", &ufold_prod, catch(|| uvals.iter().product::<BigUint>()), canon_u)?;
    agree("Product<BigUint>", &ufold_prod, catch(|| uvals.iter().cloned().product::<BigUint>()), canon_u)?;
    // scalar iterators
    let sc: Vec<i64> = scalars.iter().map(|a| a.as_i() as i64).collect();
    let usc: Vec<u32> = scalars.iter().map(|a| a.as_i() as u32).collect();
    let s_sum = catch(|| sc.iter().fold(BigInt::from(0), |acc, v| &acc + &BigInt::from(*v)));
    let s_prod = catch(|| sc.iter().fold(BigInt::from(1), |acc, v| &acc * &BigInt::from(*v)));
    agree("Sum<i64> for BigInt", &s_sum, catch(|| sc.iter().cloned().sum::<BigInt>()), canon_i)?;
    agree("Product<i64> for BigInt", &s_prod, catch(|| sc.iter().cloned().product::<BigInt>()), canon_i)?;
    let u_sum = catch(|| usc.iter().fold(BigUint::from(0u8), |acc, v| &acc + &BigUint::from(*v)));
    let u_prod = catch(|| usc.iter().fold(BigUint::from(1u8), |acc, v| &acc * &BigUint::from(*v)));
    agree("Sum<u32> for BigUint", &u_sum, catch(|| usc.iter().cloned().sum::<BigUint>()), canon_u)?;
    agree("Product<u32> for BigUint", &u_prod, catch(|| usc.iter().cloned().product::<BigUint>()), canon_u)?;
    Ok(Info::new(items.len() >= 2).class("sum_product"))
}

impl Property for C10 {
    fn id(&self) -> &'static str {
        "C10"
    }
    fn rule(&self) -> &'static str {
        "Cases: bigbig (a, b: every val/ref/assign form of + - * / % & | ^ for BigInt and BigUint plus the trait and inherent checked_* methods), scalar (big x scalar value: for every primitive type that can hold the scalar - 12 for BigInt, 6 for BigUint - the forms big op T, T op big in val/ref combinations and big op= T for + - * / %, plus `T %= big` / `T %= &big` into every primitive type), shiftpow (<< >> in 6 forms for each of the 12 amount types, Pow in 4 forms for each of 6 primitive exponent types and BigUint, inherent pow), sumprod (Sum/Product over iterators of values, references and primitive scalars). Scalars emphasise 0, +-1, each type's MIN/MAX, 2^32+-1, 2^64+-1 and values needing 1, 2 or more digits; big operands are shorter and longer than the scalar. Oracle: the canonical `&A op &B` on losslessly converted operands; results must be equal and canonical, or both must panic. The `form family` classes in the evidence list which families ran. Non-trivial: non-zero operands."
    }
    fn technique(&self) -> &'static str {
        "differential property-based testing (proptest): macro-enumerated operator forms against the canonical reference-by-reference operation"
    }
    fn strategy(&self, _tier: Tier) -> BoxedStrategy<Case> {
        let big = || prop_oneof![60 => gen::nat(3), 25 => gen::nat(1), 15 => gen::nat(9)];
        prop_oneof![
            20 => (any::<bool>(), big(), any::<bool>(), big()).prop_map(|(sa, a, sb, b)| Case::new("bigbig", vec![Arg::Z(sa, a), Arg::Z(sb, b)])),
            5 => (any::<bool>(), any::<bool>(), gen::addsub_pair(8)).prop_map(|(sa, sb, (a, b))| Case::new("bigbig", vec![Arg::Z(sa, a), Arg::Z(sb, b)])),
            45 => (any::<bool>(), big(), gen::scalar_i128()).prop_map(|(sa, a, s)| Case::new("scalar", vec![Arg::Z(sa, a), Arg::I(s)])),
            // |big| close to |scalar|: a = |s| + d
            10 => (any::<bool>(), gen::scalar_i128(), -2i128..=2).prop_map(|(sa, s, d)| {
                let m = crate::refint::RefInt::from_u128(s.unsigned_abs()).add(&crate::refint::RefInt::from_i128(d));
                Case::new("scalar", vec![Arg::Z(sa, if m.neg { vec![] } else { m.mag.to_u64_digits() }), Arg::I(s)])
            }),
            5 => (big(), (i128::MAX as u128 + 1)..=u128::MAX).prop_map(|(a, s)| Case::new("scalar.u", vec![Arg::N(a), Arg::U(s)])),
            2 => (any::<bool>(), proptest::sample::select(vec![vec![], vec![1u64]]), 0u64..40).prop_map(|(sa, a, k)| Case::new("shiftpow", vec![Arg::Z(sa, a), Arg::U(k as u128)])),
            10 => (any::<bool>(), big(), prop_oneof![4 => gen::shift_amount(4), 3 => 0u64..40, 3 => 600u64..100_000]).prop_map(|(sa, a, k)| Case::new("shiftpow", vec![Arg::Z(sa, a), Arg::U(k as u128)])),
            5 => (proptest::collection::vec((any::<bool>(), gen::nat(2)).prop_map(|(s, v)| Arg::Z(s, v)), 0..6), proptest::collection::vec(gen::scalar_i128().prop_map(|v| Arg::I((v as i64 as i128) % 100_000)), 0..6))
                .prop_map(|(items, sc)| Case::new("sumprod", vec![Arg::L(items), Arg::L(sc)])),
        ]
        .boxed()
    }
    fn check(&self, c: &Case) -> Verdict {
        let mut info = match c.op.as_str() {
            "bigbig" => {
                let (sa, a) = c.z(0);
                let (sb, b) = c.z(1);
                big_big(sa, a, sb, b)
            }
            "scalar" => {
                let (sa, a) = c.z(0);
                scalar_case(sa, a, c.i(1))
            }
            "scalar.u" => scalar_case_u(c.n(0), c.u(1)),
            "shiftpow" => {
                let (sa, a) = c.z(0);
                shiftpow_case(sa, a, c.u(1) as u64)
            }
            "sumprod" => sumprod_case(c.l(0), c.l(1)),
            o => Err(format!("unknown op {}", o)),
        }?;
        // report each form family once per worker
        FORMS.with(|f| {
            let mut f = f.borrow_mut();
            for fam in std::mem::take(&mut *f) {
                info.classes.push(fam);
                REPORTED.with(|r| r.borrow_mut().insert(fam));
            }
        });
        Ok(info)
    }
    fn budget(&self, tier: Tier) -> Budget {
        match tier {
            Tier::Quick => Budget { release: 400_000, dbg: 120_000, workers: 8 },
            Tier::Thorough => Budget { release: 20_000_000, dbg: 5_000_000, workers: 16 },
        }
    }
    fn assumptions(&self) -> Vec<String> {
        vec![
            "the canonical ref-by-ref operations are decided against RefInt by C01, C02, C03, C07 and C12; this check is purely differential".into(),
            "forms are enumerated by macros in harness/verif/src/props/c10.rs mirroring the library's forwarding macros; a form the library adds later is not covered until listed there".into(),
        ]
    }
}

thread_local! {
    static REPORTED: RefCell<BTreeSet<&'static str>> = RefCell::new(BTreeSet::new());
}
