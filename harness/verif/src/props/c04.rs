//! C04 — equal integers are indistinguishable: Eq, Ord, Hash and exports follow the value,
//! whatever history of in-place operations, constructor input or generator produced them.
use crate::engine::*;
use crate::gen;
use crate::lib_util::*;
use crate::refint::{Nat, RefInt};
use nbcase::{Arg, Case};
use num_bigint::{BigInt, BigUint, Sign};
use num_traits::{Num, One, Zero};
use proptest::collection::vec;
use proptest::prelude::*;
use std::cmp::Ordering;
use std::collections::hash_map::DefaultHasher;
use std::hash::{Hash, Hasher};

pub struct C04;

fn hash_of<T: Hash>(v: &T) -> u64 {
    let mut h = DefaultHasher::new();
    v.hash(&mut h);
    h.finish()
}

/// a twin of the model value built by a route that shares nothing with the history under test
fn twin_i(r: &RefInt, route: usize) -> BigInt {
    match route % 4 {
        0 => BigInt::from_str_radix(&r.to_string_radix(10), 10).expect("twin parse"),
        1 => {
            let b = r.mag.to_bytes_le();
            BigInt::from_bytes_le(if r.neg { Sign::Minus } else { Sign::Plus }, &b)
        }
        2 => BigInt::from_slice(if r.neg { Sign::Minus } else { Sign::Plus }, &r.mag.to_u32_digits()),
        _ => BigInt::from_signed_bytes_le(&r.to_signed_bytes_le()),
    }
}
fn twin_u(n: &Nat, route: usize) -> BigUint {
    match route % 3 {
        0 => BigUint::from_str_radix(&n.to_string_radix(16, false), 16).expect("twin parse"),
        1 => BigUint::from_bytes_be(&{
            let mut b = n.to_bytes_le();
            b.reverse();
            b
        }),
        _ => BigUint::new(n.to_u32_digits()),
    }
}

/// the indistinguishability check for one BigInt against the model
fn same_i(x: &BigInt, r: &RefInt, route: usize, what: &str) -> Result<(), String> {
    ctx(eq_bi(x, r), what)?;
    if (x.sign() == Sign::NoSign) != r.is_zero() || x.is_zero() != r.is_zero() || x.magnitude().is_zero() != r.is_zero() {
        return Err(format!("{}: sign()==NoSign / is_zero() / magnitude().is_zero() disagree about zero (sign {:?})", what, x.sign()));
    }
    let t = twin_i(r, route);
    let res = catch(|| {
        if !(*x == t) || x != &t && true {
            return Err(format!("{}: value {} is not == to an equal integer built by another route", what, trunc(&r.hex(), 120)));
        }
        if x.cmp(&t) != Ordering::Equal || t.cmp(x) != Ordering::Equal || x < &t || x > &t {
            return Err(format!("{}: cmp with an equal integer is not Equal", what));
        }
        if hash_of(x) != hash_of(&t) {
            return Err(format!("{}: Hash differs from an equal integer's", what));
        }
        if x.to_bytes_le() != t.to_bytes_le() || x.to_u32_digits() != t.to_u32_digits() || x.to_signed_bytes_be() != t.to_signed_bytes_be() {
            return Err(format!("{}: byte/digit exports differ from an equal integer's", what));
        }
        if x.to_string() != t.to_string() || format!("{:x}", x) != format!("{:x}", t) {
            return Err(format!("{}: text differs from an equal integer's", what));
        }
        Ok(())
    });
    match res {
        Ok(v) => v,
        Err(p) => Err(format!("{}: comparing/hashing/exporting the value panicked: {}", what, p)),
    }
}

fn same_u(x: &BigUint, n: &Nat, route: usize, what: &str) -> Result<(), String> {
    ctx(eq_bu(x, n), what)?;
    let t = twin_u(n, route);
    let res = catch(|| {
        if !(*x == t) {
            return Err(format!("{}: value 0x{} is not == to an equal integer built by another route", what, trunc(&n.to_string_radix(16, false), 120)));
        }
        if x.cmp(&t) != Ordering::Equal || x < &t || x > &t {
            return Err(format!("{}: cmp with an equal integer is not Equal", what));
        }
        if hash_of(x) != hash_of(&t) {
            return Err(format!("{}: Hash differs from an equal integer's", what));
        }
        if x.to_bytes_le() != t.to_bytes_le() || x.to_u64_digits() != t.to_u64_digits() || x.to_string() != t.to_string() || x.bits() != t.bits() {
            return Err(format!("{}: exports differ from an equal integer's", what));
        }
        Ok(())
    });
    match res {
        Ok(v) => v,
        Err(p) => Err(format!("{}: comparing/hashing/exporting the value panicked: {}", what, p)),
    }
}

/// operand derivation modes: the operand of a step is either given or derived from the current value
fn derive(cur: &RefInt, mode: i128, given: &RefInt, small: u64) -> RefInt {
    match mode {
        1 => cur.clone(),
        2 => cur.add(&RefInt::from_u128(small as u128 % 5)),
        3 => cur.sub(&RefInt::from_u128(small as u128 % 5)),
        4 => {
            // only the top digits of the current value
            let d = cur.mag.to_u64_digits();
            let keep = (small as usize % 3) + 1;
            let mut v = vec![0u64; d.len().saturating_sub(keep)];
            v.extend_from_slice(&d[d.len().saturating_sub(keep)..]);
            RefInt::new(cur.neg, Nat::from_u64_digits(&v))
        }
        5 => RefInt::from_nat(Nat::pow2(cur.mag.bits().saturating_sub(small % 70)).sub(&Nat::one())), // low mask
        6 => cur.neg(),
        7 => cur.not(),
        _ => given.clone(),
    }
}

const OPS: [&str; 24] = [
    "+=", "-=", "*=", "/=", "%=", "<<=", ">>=", "&=", "|=", "^=", "set_bit", "set_zero", "set_one", "clone_from", "assign_from_slice", "neg", "take_and_restore", "+= then -= (round trip)",
    "+= scalar", "-= scalar", "*= scalar", "/= scalar", "%= scalar", "inc/dec",
];

/// the scalar of a scalar step: one digit, two digits (u128 / i128 wide), or a small value
fn step_scalar(small: u64) -> i128 {
    match small % 5 {
        0 => (small >> 3) as i128,                                   // one digit
        1 => (((small as u128) << 64) | (small as u128 >> 1)) as i128 & i128::MAX, // needs two digits
        2 => -(((small >> 3) as i128) + 1),
        3 => (small % 7) as i128,
        _ => -(((small as u128) << 60) as i128 & i128::MAX) - 1,
    }
}

fn history(start_neg: bool, start: &[u64], steps: &[Arg]) -> Verdict {
    let mut x = bi(start_neg, start);
    let mut m = ri(start_neg, start);
    let mut u = bu(start);
    let mut um = rn(start);
    let mut seen_i: Vec<(BigInt, RefInt)> = vec![(x.clone(), m.clone())];
    let mut seen_u: Vec<(BigUint, Nat)> = vec![(u.clone(), um.clone())];
    let mut grew = false;
    let mut shrank_after_growth = false;
    let mut max_len = m.mag.to_u64_digits().len();
    for (si, st) in steps.iter().enumerate() {
        let st = st.as_l();
        let op = st[0].as_i();
        let (gneg, gd) = st[1].as_z();
        let mode = st[2].as_i();
        let small = st[3].as_u() as u64;
        let given = ri(gneg, gd);
        let b = derive(&m, mode, &given, small);
        let bb = bi(b.neg, &b.mag.to_u64_digits());
        // shift amounts / bit indices: given or derived from the current bit length
        let k = match mode {
            1 => m.mag.bits(),
            2 => m.mag.bits() + 1,
            3 => m.mag.bits().saturating_sub(1),
            4 => (m.mag.bits() / 64) * 64,
            _ => small % 200,
        }
        .min(2000);
        let what = format!("step {} ({}, operand mode {})", si, OPS.get(op as usize).unwrap_or(&"?"), mode);
        let before_len = m.mag.to_u64_digits().len();
        // ---- BigInt object ----
        let res = catch(|| -> Result<(), String> {
            match op {
                0 => { x += &bb; m = m.add(&b); }
                1 => { x -= &bb; m = m.sub(&b); }
                2 => { if b.mag.bits() + m.mag.bits() < 5000 { x *= &bb; m = m.mul(&b); } }
                3 => { if !b.is_zero() { x /= &bb; m = m.divrem_trunc(&b).0; } }
                4 => { if !b.is_zero() { x %= &bb; m = m.divrem_trunc(&b).1; } }
                5 => { if m.mag.bits() + k < 6000 { x <<= k; m = m.shl(k); } }
                6 => { x >>= k; m = m.shr_floor(k); }
                7 => { x &= &bb; m = m.and(&b); }
                8 => { x |= &bb; m = m.or(&b); }
                9 => { x ^= &bb; m = m.xor(&b); }
                10 => { let v = small & 1 == 1; x.set_bit(k, v); m = m.set_bit(k, v); }
                11 => { x.set_zero(); m = RefInt::zero(); }
                12 => { x.set_one(); m = RefInt::one(); }
                13 => { x.clone_from(&bb); m = b.clone(); }
                14 => {
                    let mut w = b.mag.to_u32_digits();
                    w.extend(std::iter::repeat(0).take(small as usize % 4));
                    let s = match (small >> 8) % 3 { 0 => Sign::Minus, 1 => Sign::NoSign, _ => Sign::Plus };
                    x.assign_from_slice(s, &w);
                    m = if s == Sign::NoSign { RefInt::zero() } else { RefInt::new(s == Sign::Minus, b.mag.clone()) };
                }
                15 => { x = -std::mem::take(&mut x); m = m.neg(); }
                16 => { let t = std::mem::take(&mut x); if !x.is_zero() { return Err("mem::take left a non-zero value".into()); } x = t; }
                17 => { x += &bb; x -= &bb; }
                18 => { let s = step_scalar(small); x += s; m = m.add(&RefInt::from_i128(s)); }
                19 => { let s = step_scalar(small); x -= s; m = m.sub(&RefInt::from_i128(s)); }
                20 => { let s = step_scalar(small); x *= s; m = m.mul(&RefInt::from_i128(s)); }
                21 => { let s = step_scalar(small); if s != 0 { x /= s; m = m.divrem_trunc(&RefInt::from_i128(s)).0; } }
                22 => { let s = step_scalar(small); if s != 0 { x %= s; m = m.divrem_trunc(&RefInt::from_i128(s)).1; } }
                _ => { use num_integer::Integer; if small & 1 == 1 { x.inc(); m = m.add(&RefInt::one()); } else { x.dec(); m = m.sub(&RefInt::one()); } }
            }
            Ok(())
        });
        match res {
            Ok(Ok(())) => {}
            Ok(Err(e)) => return Err(format!("{}: {}", what, e)),
            Err(p) => return Err(format!("{}: in-place operation panicked: {}", what, p)),
        }
        same_i(&x, &m, si, &format!("BigInt after {}", what))?;
        // ---- BigUint object: the same history on magnitudes, where the step is defined for naturals ----
        let ub = b.mag.clone();
        let ubb = bu(&ub.to_u64_digits());
        let res = catch(|| -> Result<(), String> {
            match op {
                0 => { u += &ubb; um = um.add(&ub); }
                1 => { if !um.lt(&ub) { u -= &ubb; um = um.sub(&ub); } }
                2 => { if ub.bits() + um.bits() < 5000 { u *= &ubb; um = um.mul(&ub); } }
                3 => { if !ub.is_zero() { u /= &ubb; um = um.divrem(&ub).0; } }
                4 => { if !ub.is_zero() { u %= &ubb; um = um.divrem(&ub).1; } }
                5 => { if um.bits() + k < 6000 { u <<= k; um = um.shl(k); } }
                6 => { u >>= k; um = um.shr(k); }
                7 => { u &= &ubb; um = um.and(&ub); }
                8 => { u |= &ubb; um = um.or(&ub); }
                9 => { u ^= &ubb; um = um.xor(&ub); }
                10 => { let v = small & 1 == 1; u.set_bit(k, v); um.set_bit(k, v); }
                11 => { u.set_zero(); um = Nat::zero(); }
                12 => { u.set_one(); um = Nat::one(); }
                13 => { u.clone_from(&ubb); um = ub.clone(); }
                14 => {
                    let mut w = ub.to_u32_digits();
                    w.extend(std::iter::repeat(0).take(small as usize % 4));
                    u.assign_from_slice(&w);
                    um = ub.clone();
                }
                16 => { let t = std::mem::take(&mut u); u = t; }
                17 => { u += &ubb; u -= &ubb; }
                18 => { let s = step_scalar(small).unsigned_abs(); u += s; um = um.add(&Nat::from_u128(s)); }
                19 => { let s = step_scalar(small).unsigned_abs(); if !um.lt(&Nat::from_u128(s)) { u -= s; um = um.sub(&Nat::from_u128(s)); } }
                20 => { let s = step_scalar(small).unsigned_abs(); u *= s; um = um.mul(&Nat::from_u128(s)); }
                21 => { let s = step_scalar(small).unsigned_abs(); if s != 0 { u /= s; um = um.divrem(&Nat::from_u128(s)).0; } }
                22 => { let s = step_scalar(small).unsigned_abs(); if s != 0 { u %= s; um = um.divrem(&Nat::from_u128(s)).1; } }
                23 => { use num_integer::Integer; if small & 1 == 1 { u.inc(); um = um.add(&Nat::one()); } else if !um.is_zero() { u.dec(); um = um.sub(&Nat::one()); } }
                _ => {}
            }
            Ok(())
        });
        match res {
            Ok(Ok(())) => {}
            Ok(Err(e)) => return Err(format!("BigUint {}: {}", what, e)),
            Err(p) => return Err(format!("BigUint {}: in-place operation panicked: {}", what, p)),
        }
        same_u(&u, &um, si, &format!("BigUint after {}", what))?;
        let len = m.mag.to_u64_digits().len();
        if len > before_len {
            grew = true;
        }
        max_len = max_len.max(len);
        if grew && (len + 1 < max_len || m.is_zero()) {
            shrank_after_growth = true;
        }
        if seen_i.len() < 44 {
            seen_i.push((x.clone(), m.clone()));
            seen_u.push((u.clone(), um.clone()));
        }
    }
    // ---- all values met are ordered like the model ----
    let res = catch(|| -> Result<(), String> {
        for (a, ra) in &seen_i {
            for (b, rb) in &seen_i {
                let want = ra.cmp(rb);
                if a.cmp(b) != want || (a < b) != (want == Ordering::Less) || (a == b) != (want == Ordering::Equal) || a.partial_cmp(b) != Some(want) {
                    return Err(format!("cmp/</== of {} and {} disagree with numerical order", trunc(&ra.hex(), 80), trunc(&rb.hex(), 80)));
                }
                let mx = std::cmp::max(a, b);
                let wmx = if want == Ordering::Less { rb } else { ra };
                if &ref_of_bi(mx) != wmx {
                    return Err("max() disagrees with numerical order".into());
                }
            }
        }
        for (a, ra) in &seen_u {
            for (b, rb) in &seen_u {
                let want = ra.cmp(rb);
                if a.cmp(b) != want || (a < b) != (want == Ordering::Less) || (a >= b) != (want != Ordering::Less) || (a == b) != (want == Ordering::Equal) || a.partial_cmp(b) != Some(want) {
                    return Err(format!("BigUint cmp/</>=/== of 0x{} and 0x{} disagree with numerical order", trunc(&ra.to_string_radix(16, false), 80), trunc(&rb.to_string_radix(16, false), 80)));
                }
                if &nat_of_bu(std::cmp::min(a, b)) != (if want == Ordering::Greater { rb } else { ra }) {
                    return Err("BigUint min() disagrees with numerical order".into());
                }
            }
        }
        let mut usorted: Vec<&BigUint> = seen_u.iter().map(|p| &p.0).collect();
        usorted.sort();
        let mut umsorted: Vec<&Nat> = seen_u.iter().map(|p| &p.1).collect();
        umsorted.sort_by(|a, b| a.cmp(b));
        for (a, b) in usorted.iter().zip(umsorted.iter()) {
            if &&nat_of_bu(a) != b {
                return Err("BigUint sort() order disagrees with numerical order".into());
            }
        }
        let mut sorted: Vec<&BigInt> = seen_i.iter().map(|p| &p.0).collect();
        sorted.sort();
        let mut msorted: Vec<&RefInt> = seen_i.iter().map(|p| &p.1).collect();
        msorted.sort_by(|a, b| a.cmp(b));
        for (a, b) in sorted.iter().zip(msorted.iter()) {
            if &&ref_of_bi(a) != b {
                return Err("sort() order disagrees with numerical order".into());
            }
        }
        Ok(())
    });
    match res {
        Ok(v) => v?,
        Err(p) => return Err(format!("comparing values met in the history panicked: {}", p)),
    }
    Ok(Info::new(shrank_after_growth)
        .class("history")
        .class_if(shrank_after_growth, "shrinks_after_growth")
        .class_if(steps.len() >= 10, "ten_or_more_steps"))
}

/// constructor inputs with redundant high zeros / sign mismatches, generators and shrinkers
fn ctor(words: &[Arg], sg: i128, bytes: &[u8], qc_size: u64, qc_seed: u64) -> Verdict {
    let w: Vec<u32> = words.iter().map(|a| a.as_u() as u32).collect();
    let n = Nat::from_u32_digits(&w);
    let s = match sg {
        0 => Sign::NoSign,
        x if x > 0 => Sign::Plus,
        _ => Sign::Minus,
    };
    let want = if s == Sign::NoSign { RefInt::zero() } else { RefInt::new(s == Sign::Minus, n.clone()) };
    same_u(&BigUint::new(w.clone()), &n, 0, "BigUint::new")?;
    same_u(&BigUint::from_slice(&w), &n, 1, "BigUint::from_slice")?;
    same_i(&BigInt::new(s, w.clone()), &want, 0, "BigInt::new")?;
    same_i(&BigInt::from_slice(s, &w), &want, 1, "BigInt::from_slice")?;
    same_i(&BigInt::from_biguint(s, BigUint::new(w.clone())), &want, 2, "BigInt::from_biguint")?;
    // bytes with padding
    let nb = Nat::from_bytes_le(bytes);
    same_u(&BigUint::from_bytes_le(bytes), &nb, 2, "BigUint::from_bytes_le")?;
    same_i(&BigInt::from_bytes_le(s, bytes), &if s == Sign::NoSign { RefInt::zero() } else { RefInt::new(s == Sign::Minus, nb.clone()) }, 3, "BigInt::from_bytes_le")?;
    same_i(&BigInt::from_signed_bytes_le(bytes), &RefInt::from_signed_bytes_le(bytes), 0, "BigInt::from_signed_bytes_le")?;
    if let Some(v) = BigUint::from_radix_le(bytes, 256) {
        same_u(&v, &nb, 0, "BigUint::from_radix_le(256)")?;
    }
    // text with leading zeros
    let text = format!("{}{}", "0".repeat((qc_seed % 40) as usize), n.to_string_radix(10, false));
    match BigUint::from_str_radix(&text, 10) {
        Ok(v) => same_u(&v, &n, 1, "BigUint::from_str_radix with leading zeros")?,
        Err(e) => return Err(format!("from_str_radix rejected {:?}: {:?}", trunc(&text, 80), e)),
    }
    // arbitrary: any byte string must produce canonical values that are indistinguishable from twins
    {
        use arbitrary::{Arbitrary, Unstructured};
        let mut un = Unstructured::new(bytes);
        if let Ok(v) = must_return("BigUint::arbitrary", || BigUint::arbitrary(&mut un))? {
            same_u(&v, &nat_of_bu(&v), 0, "arbitrary::Arbitrary for BigUint")?;
        }
        let mut un = Unstructured::new(bytes);
        if let Ok(v) = must_return("BigInt::arbitrary", || BigInt::arbitrary(&mut un))? {
            same_i(&v, &ref_of_bi(&v), 1, "arbitrary::Arbitrary for BigInt")?;
        }
        if let Ok(v) = must_return("BigUint::arbitrary_take_rest", || BigUint::arbitrary_take_rest(Unstructured::new(bytes)))? {
            same_u(&v, &nat_of_bu(&v), 2, "arbitrary_take_rest for BigUint")?;
        }
        if let Ok(v) = must_return("BigInt::arbitrary_take_rest", || BigInt::arbitrary_take_rest(Unstructured::new(bytes)))? {
            same_i(&v, &ref_of_bi(&v), 3, "arbitrary_take_rest for BigInt")?;
        }
    }
    // quickcheck generator and shrinker
    {
        use quickcheck::{Arbitrary, Gen};
        let mut g = Gen::from_size_and_seed((qc_size % 24) as usize + 1, qc_seed);
        let v = must_return("quickcheck BigUint::arbitrary", || BigUint::arbitrary(&mut g))?;
        same_u(&v, &nat_of_bu(&v), 0, "quickcheck::Arbitrary for BigUint")?;
        let vi = must_return("quickcheck BigInt::arbitrary", || BigInt::arbitrary(&mut g))?;
        same_i(&vi, &ref_of_bi(&vi), 1, "quickcheck::Arbitrary for BigInt")?;
        // shrink candidates of a value with interior zero digits (so that removing digits can expose high zeros)
        let base = BigUint::new(w.clone());
        for (i, sv) in must_return("shrink", || base.shrink().take(40).collect::<Vec<_>>())?.into_iter().enumerate() {
            same_u(&sv, &nat_of_bu(&sv), i, "BigUint::shrink() candidate")?;
        }
        let basei = BigInt::new(if s == Sign::NoSign { Sign::Plus } else { s }, w.clone());
        for (i, sv) in must_return("shrink", || basei.shrink().take(40).collect::<Vec<_>>())?.into_iter().enumerate() {
            same_i(&sv, &ref_of_bi(&sv), i, "BigInt::shrink() candidate")?;
        }
    }
    let redundant = w.last() == Some(&0) || (s == Sign::NoSign && !n.is_zero()) || (s != Sign::NoSign && n.is_zero());
    Ok(Info::new(redundant)
        .class("constructors_generators")
        .class_if(redundant, "redundant_zeros_or_sign_mismatch")
        .class_if(w.iter().rev().skip_while(|x| **x == 0).any(|x| *x == 0), "interior_zero_words"))
}

impl Property for C04 {
    fn id(&self) -> &'static str {
        "C04"
    }
    fn rule(&self) -> &'static str {
        "Two domains. hist: a start value and 1..30 in-place steps on one BigInt object and, in parallel, one BigUint object (+= -= *= /= %= <<= >>= &= |= ^= set_bit set_zero set_one clone_from assign_from_slice(with redundant zero words and any sign) neg mem::take, += then -=, and the scalar forms += -= *= /= %= with one- and two-digit i128/u128 scalars, inc, dec); a step's operand is either generated or DERIVED from the current value (a copy, copy+-small, only its top digits, the low mask 2^(bits-k)-1, its negation, its complement) and shift amounts / bit indices are the current bit length, +-1, or its digit floor, so that cancellation (x ^= x, x -= x, x %= x, x &= mask, x >>= bits) actually happens. After EVERY step the object must equal the RefInt model, be canonical (no high zero digit; NoSign iff zero) and be indistinguishable from a twin built from the model by a different route (decimal text, bytes, u32 slice, signed bytes - rotating): ==, cmp, <, >, DefaultHasher output, to_bytes_le, to_u32_digits, to_signed_bytes_be, Display, LowerHex; at the end all values met by the BigInt and by the BigUint object are compared pairwise (cmp, <, >=, ==, partial_cmp, max/min) and sorted, against the model order. ctor: u32 word lists with redundant high zeros and interior zeros x all three Sign requests through new/from_slice/from_biguint, padded byte strings through from_bytes_le/from_signed_bytes_le/from_radix_le, numerals with leading zeros, arbitrary::Arbitrary (arbitrary and arbitrary_take_rest) on the byte string, quickcheck::Arbitrary with Gen::from_size_and_seed, and the first 40 shrink() candidates - each compared with twins in the same way. Non-trivial: a history in which the value shrinks (by >= 2 digits or to zero) after an earlier growth; a constructor input with redundant zeros or a sign mismatch."
    }
    fn technique(&self) -> &'static str {
        "model-based property testing (proptest): generated operation histories (vec(step) + interpreter holding implementation and RefInt model side by side) with value-derived operands; invariant and twin-indistinguishability oracle after every step"
    }
    fn strategy(&self, tier: Tier) -> BoxedStrategy<Case> {
        let max_steps = match tier {
            Tier::Quick => 24usize,
            Tier::Thorough => 40,
        };
        let step = (
            prop_oneof![50 => 0i128..=10, 20 => 11i128..=17, 18 => 18i128..=23, 12 => proptest::sample::select(vec![1i128, 4, 6, 7, 9, 3])],
            any::<bool>(),
            prop_oneof![70 => gen::nat(3), 20 => gen::nat(8), 10 => gen::nat(0)],
            prop_oneof![45 => Just(0i128), 55 => 1i128..=7],
            any::<u64>(),
        )
            .prop_map(|(op, neg, d, mode, small)| Arg::L(vec![Arg::I(op), Arg::Z(neg, d), Arg::I(mode), Arg::U(small as u128)]));
        let hist = (any::<bool>(), gen::nat(6), vec(step, 1..=max_steps)).prop_map(|(s, a, steps)| Case::new("hist", vec![Arg::Z(s, a), Arg::L(steps)]));
        let word = prop_oneof![50 => proptest::sample::select(vec![0u32, 0, 1, u32::MAX]), 50 => any::<u32>()];
        let ctor = (vec(word, 0..=10), 0usize..=4, -1i128..=1, vec(prop_oneof![proptest::sample::select(vec![0u8, 0, 0xff, 0x80, 1]), any::<u8>()], 0..=48), any::<u64>(), any::<u64>()).prop_map(|(mut w, z, sg, bytes, qs, seed)| {
            w.extend(std::iter::repeat(0).take(z));
            Case::new("ctor", vec![Arg::L(w.into_iter().map(|x| Arg::U(x as u128)).collect()), Arg::I(sg), Arg::B(bytes), Arg::U(qs as u128), Arg::U(seed as u128)])
        });
        prop_oneof![75 => hist, 25 => ctor].boxed()
    }
    fn check(&self, c: &Case) -> Verdict {
        match c.op.as_str() {
            "hist" => {
                let (s, a) = c.z(0);
                history(s, a, c.l(1))
            }
            "ctor" => ctor(c.l(0), c.i(1), c.b(2), c.u(3) as u64, c.u(4) as u64),
            o => Err(format!("unknown op {}", o)),
        }
    }
    fn budget(&self, tier: Tier) -> Budget {
        match tier {
            Tier::Quick => Budget { release: 400_000, dbg: 200_000, workers: 8 },
            Tier::Thorough => Budget { release: 12_000_000, dbg: 6_000_000, workers: 16 },
        }
    }
    fn assumptions(&self) -> Vec<String> {
        vec![
            "twins are built through public constructors that are themselves decided by C06/C09".into(),
            "in the debug-assertion profile Eq/Ord/Hash assert the canonical-form invariant, so a stale high zero shows as a panic there and as an unequal comparison in release; both are reported".into(),
        ]
    }
}

#[allow(dead_code)]
fn _z(_: BigInt) -> bool {
    BigInt::one().is_zero()
}
