//! C12 — exponentiation is exact for every exponent type.
use crate::engine::*;
use crate::gen;
use crate::lib_util::*;
use crate::refint::{Nat, RefInt};
use nbcase::{Arg, Case};
use num_bigint::{BigInt, BigUint};
use num_traits::Pow;
use proptest::prelude::*;
use proptest::sample::select;

pub struct C12;

const MAX_RESULT_BITS: u64 = 1 << 18;

/// reference power: plain repeated multiplication for small exponents, otherwise an independent
/// left-to-right binary method (the library uses right-to-left with a square-only prefix)
fn ref_pow(base: &Nat, e: &Nat) -> Nat {
    if e.is_zero() {
        return Nat::one();
    }
    if base.is_zero() {
        return Nat::zero();
    }
    if base.is_one() {
        return Nat::one();
    }
    let ev = e.to_u64().expect("bounded by generator");
    if ev <= 64 {
        let mut acc = Nat::one();
        for _ in 0..ev {
            acc = acc.mul(base);
        }
        return acc;
    }
    let mut acc = Nat::one();
    for i in (0..e.bits()).rev() {
        acc = acc.mul(&acc);
        if e.bit(i) {
            acc = acc.mul(base);
        }
    }
    acc
}

fn check_pow(neg: bool, b: &[u64], e: &[u64]) -> Verdict {
    let x = bi(neg, b);
    let u = bu(b);
    let rb = ri(neg, b);
    let re = rn(e);
    // in scope only if the result fits comfortably
    let trivial_base = rb.mag.is_zero() || rb.mag.is_one();
    if !trivial_base {
        let eb = re.to_u64().ok_or("harness: exponent too large for a non-trivial base")?;
        if rb.mag.bits().saturating_mul(eb) > MAX_RESULT_BITS {
            return Err("harness: case outside the generated domain (result too large)".into());
        }
    }
    let mag = ref_pow(&rb.mag, &re);
    let want_u = mag.clone();
    let want_i = RefInt::new(rb.neg && re.is_odd(), mag);
    let mut types = 0;
    macro_rules! prim {
        ($($T:ty),*) => {$(
            if let Some(t) = re.to_u128().and_then(|v| <$T>::try_from(v).ok()) {
                types += 1;
                let tn = stringify!($T);
                ctx(must_return("pow", || Pow::pow(&u, t)).and_then(|r| eq_bu(&r, &want_u)), &format!("Pow::pow(&BigUint, {})", tn))?;
                ctx(must_return("pow", || Pow::pow(u.clone(), t)).and_then(|r| eq_bu(&r, &want_u)), &format!("Pow::pow(BigUint, {})", tn))?;
                ctx(must_return("pow", || Pow::pow(&u, &t)).and_then(|r| eq_bu(&r, &want_u)), &format!("Pow::pow(&BigUint, &{})", tn))?;
                ctx(must_return("pow", || Pow::pow(u.clone(), &t)).and_then(|r| eq_bu(&r, &want_u)), &format!("Pow::pow(BigUint, &{})", tn))?;
                ctx(must_return("pow", || Pow::pow(&x, t)).and_then(|r| eq_bi(&r, &want_i)), &format!("Pow::pow(&BigInt, {})", tn))?;
                ctx(must_return("pow", || Pow::pow(x.clone(), t)).and_then(|r| eq_bi(&r, &want_i)), &format!("Pow::pow(BigInt, {})", tn))?;
                ctx(must_return("pow", || Pow::pow(&x, &t)).and_then(|r| eq_bi(&r, &want_i)), &format!("Pow::pow(&BigInt, &{})", tn))?;
                ctx(must_return("pow", || Pow::pow(x.clone(), &t)).and_then(|r| eq_bi(&r, &want_i)), &format!("Pow::pow(BigInt, &{})", tn))?;
            }
        )*};
    }
    prim!(u8, u16, u32, u64, usize, u128);
    if let Some(t) = re.to_u64().and_then(|v| u32::try_from(v).ok()) {
        ctx(must_return("BigUint::pow", || BigUint::pow(&u, t)).and_then(|r| eq_bu(&r, &want_u)), "BigUint::pow(u32)")?;
        ctx(must_return("BigInt::pow", || BigInt::pow(&x, t)).and_then(|r| eq_bi(&r, &want_i)), "BigInt::pow(u32)")?;
    }
    // BigUint exponents, every val/ref combination
    let be = bu(e);
    ctx(must_return("pow", || Pow::pow(&u, &be)).and_then(|r| eq_bu(&r, &want_u)), "Pow::pow(&BigUint, &BigUint)")?;
    ctx(must_return("pow", || Pow::pow(u.clone(), &be)).and_then(|r| eq_bu(&r, &want_u)), "Pow::pow(BigUint, &BigUint)")?;
    ctx(must_return("pow", || Pow::pow(&u, be.clone())).and_then(|r| eq_bu(&r, &want_u)), "Pow::pow(&BigUint, BigUint)")?;
    ctx(must_return("pow", || Pow::pow(u.clone(), be.clone())).and_then(|r| eq_bu(&r, &want_u)), "Pow::pow(BigUint, BigUint)")?;
    ctx(must_return("pow", || Pow::pow(&x, &be)).and_then(|r| eq_bi(&r, &want_i)), "Pow::pow(&BigInt, &BigUint)")?;
    ctx(must_return("pow", || Pow::pow(x.clone(), &be)).and_then(|r| eq_bi(&r, &want_i)), "Pow::pow(BigInt, &BigUint)")?;
    ctx(must_return("pow", || Pow::pow(&x, be.clone())).and_then(|r| eq_bi(&r, &want_i)), "Pow::pow(&BigInt, BigUint)")?;
    ctx(must_return("pow", || Pow::pow(x.clone(), be.clone())).and_then(|r| eq_bi(&r, &want_i)), "Pow::pow(BigInt, BigUint)")?;
    let ev = re.to_u128();
    let top_bit_of_type = ev.map_or(false, |v| [1u128 << 7, 1 << 15, 1 << 31, 1 << 63, 1 << 127].contains(&v));
    Ok(Info::new(rb.mag.bits() >= 2 && re.bits() >= 2)
        .class_if(trivial_base, "base_0_or_pm1")
        .class_if(rb.neg, "negative_base")
        .class_if(re.is_zero(), "exponent_zero")
        .class_if(rb.is_zero() && re.is_zero(), "zero_to_the_zero")
        .class_if(ev.map_or(true, |v| v > u64::MAX as u128), "exponent_above_u64")
        .class_if(ev.is_none(), "exponent_above_u128")
        .class_if(top_bit_of_type, "exponent_is_top_bit_of_a_type")
        .class_if(re.trailing_zeros().unwrap_or(0) >= 3, "square_only_prefix>=3")
        .class_if(re.count_ones() == 1 && !re.is_zero(), "exponent_power_of_two")
        .class_if(types >= 5, "exponent_fits_5+_types")
        .class_if(rb.mag.to_u64_digits().len() >= 2, "multi_digit_base"))
}

impl Property for C12 {
    fn id(&self) -> &'static str {
        "C12"
    }
    fn rule(&self) -> &'static str {
        "Cases (pow base exponent): bases 0, +-1, +-2, single- and multi-digit, negative; exponents 0..300, 2^k, 2^k+-1, every count of trailing zero bits, the top bit of each exponent type (128u8, 32768u16, 2^31, 2^63, 2^127 - with base 0/+-1/2 where the result fits), and BigUint exponents at 2^64-1, 2^64, 2^128-1, 2^128 and beyond with base 0 or +-1; result size capped at 2^12 bits (quick) / 2^15 (thorough) for multi-digit bases, 2^16 for base +-2. Each case runs Pow in the four val/ref forms for every primitive exponent type that can hold the exponent (u8,u16,u32,u64,usize,u128) and for BigUint exponents, on both BigUint and BigInt, plus the inherent pow(u32). Oracle: RefInt repeated multiplication (e <= 64) or an independent left-to-right binary method; sign negative iff base < 0 and e odd; 0^0 = 1. Non-trivial: |base| >= 2 and e >= 2."
    }
    fn strategy(&self, tier: Tier) -> BoxedStrategy<Case> {
        let gen_cap: u64 = match tier { Tier::Quick => 1 << 12, Tier::Thorough => 1 << 15 };
        let small_base = prop_oneof![
            30 => select(vec![vec![], vec![1u64], vec![2], vec![3], vec![10], vec![u64::MAX], vec![0, 1], vec![1 << 32]]),
            40 => gen::nat(1),
            20 => gen::nat(3),
            10 => gen::nat(8),
        ];
        let exp_small = prop_oneof![
            40 => 0u64..=300,
            15 => (0u32..=16).prop_map(|k| 1u64 << k),
            15 => (1u32..=16, any::<bool>()).prop_map(|(k, p)| if p { (1u64 << k) + 1 } else { (1u64 << k) - 1 }),
            15 => (0u32..=12, 1u64..=31).prop_map(|(z, odd)| (odd | 1) << z),
            15 => select(vec![0u64, 1, 2, 3, 127, 128, 129, 255, 256, 257, 1000, 32767, 32768, 32769, 65535, 65536]),
        ];
        // general: base x exponent with the result capped
        let general = (any::<bool>(), small_base, exp_small).prop_map(move |(neg, b, e)| {
            let bits = Nat::from_u64_digits(&b).bits().max(1);
            let cap = (gen_cap / bits).max(2);
            // fold large exponents into the admissible range without collapsing them onto the cap
            let e = if bits <= 1 || e <= cap { e } else { e % (cap + 1) };
            Case::new("pow", vec![Arg::Z(neg, b), Arg::N(gen::trim(vec![e]))])
        });
        // trivial bases with enormous exponents (incl. above u64 / u128)
        let huge = (any::<bool>(), select(vec![vec![], vec![1u64]]), prop_oneof![
            select(vec![vec![u64::MAX], vec![0, 1], vec![1, 1], vec![u64::MAX, u64::MAX], vec![0, 0, 1], vec![1, 0, 1], vec![0, 0, 0, 1],
                        vec![1u64 << 63], vec![0, 1u64 << 63], vec![1 << 31], vec![(1 << 31) + 1], vec![u32::MAX as u64], vec![(u32::MAX as u64) + 1]]),
            gen::nat(3),
        ]).prop_map(|(neg, b, e)| Case::new("pow", vec![Arg::Z(neg, b), Arg::N(e)]));
        // base 2 / -2 at the top bit of narrow types
        let top = (any::<bool>(), select(vec![127u64, 128, 129, 255, 256, 32767, 32768, 32769, 65535, 65536, 65537])).prop_map(|(neg, e)| Case::new("pow", vec![Arg::Z(neg, vec![2]), Arg::N(vec![e])]));
        prop_oneof![70 => general, 20 => huge, 10 => top].boxed()
    }
    fn check(&self, c: &Case) -> Verdict {
        match c.op.as_str() {
            "pow" => {
                let (s, b) = c.z(0);
                check_pow(s, b, c.n(1))
            }
            o => Err(format!("unknown op {}", o)),
        }
    }
    fn budget(&self, tier: Tier) -> Budget {
        match tier {
            Tier::Quick => Budget { release: 900_000, dbg: 180_000, workers: 8 },
            Tier::Thorough => Budget { release: 10_000_000, dbg: 1_500_000, workers: 16 },
        }
    }
    fn assumptions(&self) -> Vec<String> {
        vec!["results above 2^17 bits are not generated (memory-scope exclusion); the minimiser may propose cases outside the domain, which the check rejects as harness errors rather than verdicts".into()]
    }
}

#[allow(dead_code)]
fn _t(_: &BigInt, _: &BigUint) {}
