//! C14 — operations fail only in their documented cases, and checked variants never panic.
//!
//! A router over the operation catalogues of the other properties (each of which already
//! decides, from the model, whether a case lies in the documented-failure set and demands a
//! panic / None there and a returned, exact value everywhere else) plus `failset`, which
//! enumerates the documented failure cases form by form.  Both profiles run in full; a signal or
//! a confirmed non-termination is a violation here.
use crate::engine::*;
use crate::gen;
use crate::lib_util::*;
use crate::refint::{Nat, RefInt};
use nbcase::{Arg, Case};
use num_bigint::{BigInt, BigUint};
use num_traits::{CheckedAdd, CheckedDiv, CheckedEuclid, CheckedMul, CheckedSub, Num};
use proptest::prelude::*;
use proptest::sample::select;

pub struct C14;

const FAILURE_CLASSES: [&str; 14] = [
    "zero_divisor",
    "zero_modulus",
    "negative_exponent",
    "negative_amount",
    "bad_text_radix",
    "bad_digit_radix",
    "zeroth_root",
    "empty_or_inverted_range",
    "zero_bound",
    "radix_out_of_range_must_panic",
    "biguint_underflow",
    "even_root_of_negative",
    "failset",
    "checked_none",
];

fn none<T: std::fmt::Debug>(what: &str, f: impl FnOnce() -> Option<T>) -> Result<(), String> {
    match catch(f) {
        Ok(None) => Ok(()),
        Ok(Some(v)) => Err(format!("{} returned Some({}) in its failure case", what, trunc(&format!("{:?}", v), 100))),
        Err(p) => Err(format!("{} panicked ({}) instead of returning None", what, p)),
    }
}
fn some<T>(what: &str, f: impl FnOnce() -> Option<T>) -> Result<T, String> {
    match catch(f) {
        Ok(Some(v)) => Ok(v),
        Ok(None) => Err(format!("{} returned None outside its failure case", what)),
        Err(p) => Err(format!("{} panicked ({}); checked methods never panic", what, p)),
    }
}

/// the documented failure set, form by form, for a big value `a` and a scalar `s`
fn failset(neg: bool, a: &[u64], s: i128) -> Verdict {
    let x = bi(neg, a);
    let u = bu(a);
    let ra = ri(neg, a);
    let zero_i = BigInt::from(0);
    let zero_u = BigUint::from(0u8);
    // --- division / remainder by zero: every primitive type, both operand orders, assign forms ---
    macro_rules! div_zero {
        ($big:expr, $($T:ty),*) => {$(
            {
                let z: $T = 0;
                let tn = stringify!($T);
                must_panic(&format!("big / 0{}", tn), || &$big / z)?;
                must_panic(&format!("big % 0{}", tn), || &$big % z)?;
                must_panic(&format!("big (val) / 0{}", tn), || $big.clone() / z)?;
                must_panic(&format!("big (val) % 0{}", tn), || $big.clone() % z)?;
                must_panic(&format!("big /= 0{}", tn), || { let mut t = $big.clone(); t /= z; t })?;
                must_panic(&format!("big %= 0{}", tn), || { let mut t = $big.clone(); t %= z; t })?;
            }
        )*};
    }
    div_zero!(x, u8, u16, u32, u64, u128, usize, i8, i16, i32, i64, i128, isize);
    div_zero!(u, u8, u16, u32, u64, u128, usize);
    // scalar / zero big
    macro_rules! scalar_over_zero {
        ($zero:expr, $v:expr, $($T:ty),*) => {$(
            if let Ok(t) = <$T>::try_from($v) {
                let tn = stringify!($T);
                must_panic(&format!("{} / zero big", tn), || t / &$zero)?;
                must_panic(&format!("{} % zero big", tn), || t % &$zero)?;
                must_panic(&format!("{} / zero big (val)", tn), || t / $zero.clone())?;
                must_panic(&format!("{} % zero big (val)", tn), || t % $zero.clone())?;
            }
        )*};
    }
    scalar_over_zero!(zero_i, s, u8, u16, u32, u64, u128, usize, i8, i16, i32, i64, i128, isize);
    if s >= 0 {
        scalar_over_zero!(zero_u, s, u8, u16, u32, u64, u128, usize);
    }
    macro_rules! rem_assign_zero {
        ($v:expr, $($T:ty),*) => {$(
            if let Ok(t) = <$T>::try_from($v) {
                must_panic(concat!(stringify!($T), " %= &zero BigUint"), || { let mut w = t; w %= &zero_u; w })?;
                must_panic(concat!(stringify!($T), " %= zero BigUint"), || { let mut w = t; w %= zero_u.clone(); w })?;
            }
        )*};
    }
    rem_assign_zero!(s, u8, u16, u32, u64, u128, usize, i8, i16, i32, i64, i128, isize);
    // checked_* with a zero divisor: None, never a panic
    none("BigInt::checked_div(0)", || CheckedDiv::checked_div(&x, &zero_i))?;
    none("BigInt::checked_div(0) inherent", || x.checked_div(&zero_i))?;
    none("BigInt::checked_div_euclid(0)", || x.checked_div_euclid(&zero_i))?;
    none("BigInt::checked_rem_euclid(0)", || x.checked_rem_euclid(&zero_i))?;
    none("BigInt::checked_div_rem_euclid(0)", || x.checked_div_rem_euclid(&zero_i))?;
    none("BigUint::checked_div(0)", || u.checked_div(&zero_u))?;
    none("BigUint::checked_div_euclid(0)", || u.checked_div_euclid(&zero_u))?;
    none("BigUint::checked_rem_euclid(0)", || u.checked_rem_euclid(&zero_u))?;
    none("BigUint::checked_div_rem_euclid(0)", || u.checked_div_rem_euclid(&zero_u))?;
    // checked_* outside the failure set: Some(exact), never a panic
    let one_i = BigInt::from(1);
    ctx(some("BigInt::checked_add", || CheckedAdd::checked_add(&x, &one_i)).and_then(|v| eq_bi(&v, &ra.add(&RefInt::one()))), "BigInt::checked_add")?;
    ctx(some("BigInt::checked_sub", || CheckedSub::checked_sub(&x, &one_i)).and_then(|v| eq_bi(&v, &ra.sub(&RefInt::one()))), "BigInt::checked_sub")?;
    ctx(some("BigInt::checked_mul", || CheckedMul::checked_mul(&x, &x)).and_then(|v| eq_bi(&v, &ra.mul(&ra))), "BigInt::checked_mul")?;
    ctx(some("BigInt::checked_div", || CheckedDiv::checked_div(&x, &one_i)).and_then(|v| eq_bi(&v, &ra)), "BigInt::checked_div")?;
    // --- BigUint subtraction below zero: scalar forms ---
    let m = s.unsigned_abs();
    macro_rules! usub {
        ($($T:ty),*) => {$(
            if let Ok(t) = <$T>::try_from(m) {
                let tn = stringify!($T);
                let rt = Nat::from_u128(m);
                match ra.mag.cmp(&rt) {
                    std::cmp::Ordering::Less => {
                        must_panic(&format!("BigUint - larger {}", tn), || &u - t)?;
                        must_panic(&format!("BigUint (val) - larger {}", tn), || u.clone() - t)?;
                        must_panic(&format!("BigUint -= larger {}", tn), || { let mut w = u.clone(); w -= t; w })?;
                        ctx(must_return("scalar - BigUint", || t - &u).and_then(|v| eq_bu(&v, &rt.sub(&ra.mag))), &format!("{} - smaller BigUint", tn))?;
                    }
                    std::cmp::Ordering::Greater => {
                        must_panic(&format!("{} - larger BigUint", tn), || t - &u)?;
                        must_panic(&format!("{} - larger BigUint (val)", tn), || t - u.clone())?;
                        ctx(must_return("BigUint - scalar", || &u - t).and_then(|v| eq_bu(&v, &ra.mag.sub(&rt))), &format!("BigUint - smaller {}", tn))?;
                    }
                    std::cmp::Ordering::Equal => {
                        ctx(must_return("BigUint - equal scalar", || &u - t).and_then(|v| eq_bu(&v, &Nat::zero())), &format!("BigUint - equal {}", tn))?;
                        ctx(must_return("scalar - equal BigUint", || t - &u).and_then(|v| eq_bu(&v, &Nat::zero())), &format!("{} - equal BigUint", tn))?;
                    }
                }
            }
        )*};
    }
    usub!(u8, u16, u32, u64, u128, usize);
    match ra.mag.cmp(&Nat::from_u128(m)) {
        std::cmp::Ordering::Less => none("BigUint::checked_sub (minuend smaller)", || u.checked_sub(&BigUint::from(m)))?,
        _ => {
            ctx(some("BigUint::checked_sub", || u.checked_sub(&BigUint::from(m))).and_then(|v| eq_bu(&v, &ra.mag.sub(&Nat::from_u128(m)))), "BigUint::checked_sub")?;
        }
    }
    // --- radix outside its allowed range: every text / digit API ---
    for r in [0u32, 1, 37, 64, 255, 256, 257, u32::MAX] {
        if !(2..=36).contains(&r) {
            must_panic(&format!("BigInt::to_str_radix({})", r), || x.to_str_radix(r))?;
            must_panic(&format!("BigUint::to_str_radix({})", r), || u.to_str_radix(r))?;
            must_panic(&format!("BigInt::from_str_radix(_, {})", r), || BigInt::from_str_radix("10", r))?;
            must_panic(&format!("BigUint::from_str_radix(_, {})", r), || BigUint::from_str_radix("10", r))?;
            must_panic(&format!("BigInt::parse_bytes(_, {})", r), || BigInt::parse_bytes(b"10", r))?;
            must_panic(&format!("BigUint::parse_bytes(_, {})", r), || BigUint::parse_bytes(b"10", r))?;
        }
        if !(2..=256).contains(&r) {
            must_panic(&format!("BigUint::to_radix_le({})", r), || u.to_radix_le(r))?;
            must_panic(&format!("BigUint::to_radix_be({})", r), || u.to_radix_be(r))?;
            must_panic(&format!("BigInt::to_radix_le({})", r), || x.to_radix_le(r))?;
            must_panic(&format!("BigInt::to_radix_be({})", r), || x.to_radix_be(r))?;
            must_panic(&format!("BigUint::from_radix_le(_, {})", r), || BigUint::from_radix_le(&[1, 0], r))?;
            must_panic(&format!("BigUint::from_radix_be(_, {})", r), || BigUint::from_radix_be(&[1, 0], r))?;
            must_panic(&format!("BigInt::from_radix_be(_, {})", r), || BigInt::from_radix_be(num_bigint::Sign::Plus, &[1, 0], r))?;
        }
    }
    // --- Integer helpers with a zero argument ---
    {
        use num_integer::Integer;
        must_panic("BigInt::div_floor(0)", || x.div_floor(&zero_i))?;
        must_panic("BigInt::mod_floor(0)", || x.mod_floor(&zero_i))?;
        must_panic("BigInt::div_ceil(0)", || Integer::div_ceil(&x, &zero_i))?;
        must_panic("BigUint::div_floor(0)", || u.div_floor(&zero_u))?;
        must_panic("BigUint::div_ceil(0)", || Integer::div_ceil(&u, &zero_u))?;
        must_panic("BigInt::next_multiple_of(0)", || x.next_multiple_of(&zero_i))?;
    }
    // --- zero modulus / negative exponent / roots ---
    must_panic("BigUint::modpow(_, _, 0)", || u.modpow(&u, &zero_u))?;
    must_panic("BigInt::modpow(_, _, 0)", || x.modpow(&one_i, &zero_i))?;
    must_panic("BigInt::modpow(_, -1, _)", || x.modpow(&BigInt::from(-1), &BigInt::from(7)))?;
    must_panic("BigUint::modinv(_, 0)", || u.modinv(&zero_u))?;
    must_panic("BigInt::modinv(_, 0)", || x.modinv(&zero_i))?;
    must_panic("BigUint::nth_root(0)", || u.nth_root(0))?;
    must_panic("BigInt::nth_root(0)", || x.nth_root(0))?;
    if ra.neg {
        must_panic("sqrt of a negative", || x.sqrt())?;
        must_panic("nth_root(2) of a negative", || x.nth_root(2))?;
        must_panic("nth_root(4) of a negative", || x.nth_root(4))?;
        ctx(must_return("cbrt of a negative", || x.cbrt()).map(|_| ()), "cbrt of a negative is defined")?;
    } else {
        ctx(must_return("sqrt", || x.sqrt()).map(|_| ()), "sqrt of a non-negative is defined")?;
    }
    // --- negative shift amounts of every signed type ---
    macro_rules! negshift {
        ($($T:ty),*) => {$(
            {
                let k: $T = -1;
                let kmin: $T = <$T>::MIN;
                must_panic(concat!("BigInt << -1", stringify!($T)), || &x << k)?;
                must_panic(concat!("BigInt >> -1", stringify!($T)), || &x >> k)?;
                must_panic(concat!("BigUint << -1", stringify!($T)), || &u << k)?;
                must_panic(concat!("BigUint >> MIN ", stringify!($T)), || &u >> kmin)?;
                must_panic(concat!("BigInt >>= MIN ", stringify!($T)), || { let mut t = x.clone(); t >>= kmin; t })?;
                must_panic(concat!("BigUint <<= -1", stringify!($T)), || { let mut t = u.clone(); t <<= k; t })?;
            }
        )*};
    }
    negshift!(i8, i16, i32, i64, i128, isize);
    Ok(Info::new(true).class("failset"))
}

impl Property for C14 {
    fn id(&self) -> &'static str {
        "C14"
    }
    fn rule(&self) -> &'static str {
        "Cases are the union of the operation catalogues of C01-C13 and C17-C19 (each routed to its owner's oracle, which decides from the model whether the case is in the documented-failure set - zero divisor, BigUint subtraction below zero, negative shift amount, radix out of range, zero modulus, negative exponent, even root of a negative, zeroth root, empty/inverted range, zero bound - and demands a panic / None there and an exact returned value everywhere else), drawn with their adversarial families (add-back and top-digit-equal divisions, carry chains, all-ones squares, MIN scalars), plus failset: for a big value and a scalar, every documented failure case enumerated form by form (division and remainder by zero for all 12 primitive types in both operand orders and assign forms, T %= zero, every checked_* with a zero divisor = None, checked_* outside the failure set = Some(exact), BigUint minus a larger scalar in every form and type, every text/digit radix API with radix 0,1,37,64,255,256,257,u32::MAX, Integer helpers with zero, zero modulus, negative exponent, zeroth and even roots, negative shift amounts of every signed type incl. MIN). Both the release and the debug-assertion/overflow-check profile run in full, in worker processes; a signal or a confirmed non-termination is a violation. Non-trivial: the case is in a documented-failure class, or it runs under the debug-assertion profile and is non-trivial for its owner."
    }
    fn technique(&self) -> &'static str {
        "property-based testing (proptest) over the union of all operation catalogues with model-decided failure-set membership, in release and debug-assertion profiles, with crash/hang attribution per input"
    }
    fn strategy(&self, tier: Tier) -> BoxedStrategy<Case> {
        let owners = super::all();
        let pick = |id: &str| owners.iter().find(|p| p.id() == id).map(|p| p.strategy(tier)).expect("owner");
        let fs = (any::<bool>(), gen::nat(3), gen::scalar_i128()).prop_map(|(s, a, v)| Case::new("failset", vec![Arg::Z(s, a), Arg::I(v)]));
        // zero divisors / zero moduli / bad radices are already inside the owners' strategies; weight towards them
        let zero_div = (any::<bool>(), gen::nat(6), any::<bool>()).prop_map(|(s, a, u)| {
            if u { Case::new("div.u", vec![Arg::N(a), Arg::N(vec![])]) } else { Case::new("div.i", vec![Arg::Z(s, a), Arg::Z(false, vec![])]) }
        });
        let underflow = gen::addsub_pair(20).prop_map(|(a, b)| Case::new("addsub.u", vec![Arg::N(a), Arg::N(b)]));
        let neg_shift = (any::<bool>(), gen::nat(4), select(vec![-1i128, -2, -64, -128, i8::MIN as i128, i16::MIN as i128, i32::MIN as i128, i64::MIN as i128, i128::MIN])).prop_map(|(s, a, k)| Case::new("shift.i", vec![Arg::Z(s, a), Arg::I(k), Arg::U(0)]));
        prop_oneof![
            10 => fs,
            4 => zero_div,
            6 => underflow,
            3 => neg_shift,
            8 => pick("C01"),
            7 => pick("C02"),
            12 => pick("C03"),
            8 => pick("C05"),
            8 => pick("C06"),
            8 => pick("C07"),
            8 => pick("C10"),
            4 => pick("C11"),
            5 => pick("C12"),
            5 => pick("C13"),
            4 => pick("C18"),
            3 => pick("C04"),
            4 => pick("C08"),
            4 => pick("C09"),
            3 => pick("C17"),
            3 => pick("C19"),
        ]
        .boxed()
    }
    fn check(&self, c: &Case) -> Verdict {
        if c.op == "failset" {
            let (s, a) = c.z(0);
            return failset(s, a, c.i(1));
        }
        let owner = super::owner_of_op(&c.op).ok_or_else(|| format!("harness: no owner for op {}", c.op))?;
        let info = owner.check(c)?;
        let in_failset = info.classes.iter().any(|k| FAILURE_CLASSES.contains(k));
        let nt = in_failset || (cfg!(debug_assertions) && info.nontrivial);
        let mut out = Info::new(nt);
        out.classes = info.classes.into_iter().filter(|k| FAILURE_CLASSES.contains(k)).collect();
        out.classes.push(match c.op.split('.').next().unwrap_or("") {
            "addsub" => "catalogue:add/sub",
            "mul" => "catalogue:mul",
            "div" => "catalogue:div",
            "modpow" | "modinv" => "catalogue:modpow/modinv",
            "tostr" | "toradix" | "parse" | "fromradix" | "fmt" => "catalogue:text/radix",
            "bitop" | "shift" | "bit" => "catalogue:bits/shifts",
            "bigbig" | "scalar" | "shiftpow" | "sumprod" => "catalogue:operator forms",
            "root" => "catalogue:roots",
            "pow" => "catalogue:pow",
            "gcd" => "catalogue:gcd",
            "bits" | "range" | "chacha" => "catalogue:random",
            "hist" | "ctor" => "catalogue:in-place histories and constructors",
            "toprim" | "fromprim" | "tofloat" | "fromf64" | "fromf32" => "catalogue:primitive and float conversions",
            "export" | "import" | "iter" => "catalogue:bytes, digit vectors, iterators",
            "ser" | "de" => "catalogue:serde",
            "value" | "pair" | "abs_sub" | "tables" => "catalogue:sign helpers",
            _ => "catalogue:other",
        });
        if cfg!(debug_assertions) {
            out.classes.push("debug_assertions_and_overflow_checks_on");
        }
        Ok(out)
    }
    fn budget(&self, tier: Tier) -> Budget {
        match tier {
            Tier::Quick => Budget { release: 250_000, dbg: 250_000, workers: 8 },
            Tier::Thorough => Budget { release: 8_000_000, dbg: 8_000_000, workers: 16 },
        }
    }
    fn hang_is_violation(&self) -> bool {
        true
    }
    fn assumptions(&self) -> Vec<String> {
        vec![
            "operations whose result cannot fit in memory (huge left shifts / powers) are outside the property and are not generated".into(),
            "non-termination is approximated by a per-case watchdog (60 s quick / 180 s thorough against a normal cost of microseconds) confirmed alone in a fresh process with twice the budget".into(),
            "the value checks come from the owning properties' oracles (RefInt)".into(),
        ]
    }
}
