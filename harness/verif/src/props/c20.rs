//! C20 — multiplication cost grows sub-quadratically with operand size.
//!
//! Metamorphic oracle on the work counter hook: W(a,b) = sum of row lengths passed to the
//! multiply-accumulate row routine during one product (the number of elementary digit
//! multiplications), read before/after in a single-threaded worker.  No timing is used.
use crate::engine::*;
use crate::gen;
use crate::lib_util::*;
use crate::props::c02::product_oracle;
use nbcase::{Arg, Case};
use num_bigint::verif_probe::{self as vp, Probe};
use proptest::prelude::*;
use proptest::sample::select;

pub struct C20;

/// operand patterns: 0 dense (every digit non-zero), 1 every other digit zero, 2 one non-zero digit in three
fn operand(pattern: u64, seed: u64, len: usize) -> Vec<u64> {
    let mut v = gen::expand(6, seed, len); // every digit non-zero, high bit set
    let step = match pattern % 3 { 0 => 1, 1 => 2, _ => 3 };
    if step > 1 {
        for (i, d) in v.iter_mut().enumerate() {
            if i % step != step - 1 && i + 1 != len {
                *d = 0;
            }
        }
    }
    v
}
fn dense(seed: u64, len: usize) -> Vec<u64> {
    operand(0, seed, len)
}

/// work of other multiplication forms on the same operands: `a *= &b` on an object whose buffer has spare
/// capacity from an earlier, larger value, and the self-product `&a * &a` (same buffer on both sides)
fn work_forms(a: &[u64], b: &[u64]) -> Result<(u64, u64), String> {
    let (x, y) = (bu(a), bu(b));
    // capacity-bearing history: a product, shifted back down, then assigned the value of x
    let mut t = must_return("history", || { let mut t = &x * &y; t >>= 64 * y.to_u64_digits().len() as u64; t })?;
    t.clone_from(&x);
    let w0 = vp::get(Probe::MUL_MAC_ROW_WORK);
    let t = must_return("a *= &b", || { t *= &y; t })?;
    let w1 = vp::get(Probe::MUL_MAC_ROW_WORK);
    product_oracle(a, b).check_u(&t).map_err(|e| format!("`a *= &b` on a capacity-bearing object gives a wrong product: {}", e))?;
    let sq = must_return("&a * &a", || &x * &x)?;
    let w2 = vp::get(Probe::MUL_MAC_ROW_WORK);
    product_oracle(a, a).check_u(&sq).map_err(|e| format!("`&a * &a` gives a wrong product: {}", e))?;
    Ok((w1 - w0, w2 - w1))
}

/// work of one product, and a correctness check of that product
fn work(a: &[u64], b: &[u64]) -> Result<u64, String> {
    let (x, y) = (bu(a), bu(b));
    let w0 = vp::get(Probe::MUL_MAC_ROW_WORK);
    let p = must_return("&a * &b", || &x * &y)?;
    let w1 = vp::get(Probe::MUL_MAC_ROW_WORK);
    product_oracle(a, b).check_u(&p).map_err(|e| format!("product of the cost case is wrong: {}", e))?;
    Ok(w1 - w0)
}

fn balanced(n: usize, seed: u64, pattern: u64) -> Verdict {
    // the doubling law is stated (and sound) for dense operands; operands with many zero digits must simply
    // never cost more than dense operands of the same lengths (the row routine skips zero multiplier digits)
    let (a1, b1) = (dense(seed, n), dense(seed ^ 0x55, n));
    let (a2, b2) = (dense(seed, 2 * n), dense(seed ^ 0x55, 2 * n));
    let w1 = work(&a1, &b1)?;
    let w2 = work(&a2, &b2)?;
    // the op-assign form on a capacity-bearing object and the self-product obey the same law
    let (wa1, ws1) = work_forms(&a1, &b1)?;
    let (wa2, ws2) = work_forms(&a2, &b2)?;
    for (name, small, big) in [("`a *= &b` (object with spare capacity)", wa1, wa2), ("`&a * &a` (self-product)", ws1, ws2)] {
        if small == 0 || 10 * big > 34 * small {
            return Err(format!("{}: doubling the length {} -> {} multiplied the digit-multiplication count by {:.3} ({} -> {})", name, n, 2 * n, big as f64 / small.max(1) as f64, small, big));
        }
    }
    if pattern % 3 != 0 {
        let (pa, pb) = (operand(pattern, seed, 2 * n), operand(pattern / 3, seed ^ 0x55, 2 * n));
        let wp = work(&pa, &pb)?;
        let (wpa, wps) = work_forms(&pa, &pb)?;
        for (name, w, dense_w) in [("`&a * &b`", wp, w2), ("`a *= &b`", wpa, wa2), ("`&a * &a`", wps, ws2)] {
            if 4 * w > 5 * dense_w {
                return Err(format!("{} on {}-digit operands with many zero digits used {} digit multiplications, more than 1.25x the {} used for dense operands of the same length", name, 2 * n, w, dense_w));
            }
        }
    }
    let ratio = w2 as f64 / w1 as f64;
    if std::env::var_os("VERIF_C20_TRACE").is_some() {
        eprintln!("C20-trace n={} w1={} w2={} ratio={:.3} assign={:.3} square={:.3}", n, w1, w2, ratio, wa2 as f64 / wa1 as f64, ws2 as f64 / ws1 as f64);
    }
    if w1 == 0 || w2 == 0 {
        return Err("harness: work counter did not move (hooks not compiled in?)".into());
    }
    // Karatsuba gives 3, Toom-3 about 2.8, schoolbook 4: "at most about three"
    if 10 * w2 > 34 * w1 {
        return Err(format!("doubling the length {} -> {} multiplied the digit-multiplication count by {:.3} ({} -> {}); sub-quadratic algorithms give at most about 3", n, 2 * n, ratio, w1, w2));
    }
    let mut info = Info::new(true).class("balanced_doubling").class(match pattern % 3 { 0 => "dense_operand", 1 => "every_other_digit_zero", _ => "one_nonzero_digit_in_three" });
    if 2 * n == 4096 || n == 4096 {
        let w = if n == 4096 { w1 } else { w2 };
        if 4 * w >= 4096u64 * 4096 {
            return Err(format!("a 4096 x 4096 digit product used {} digit multiplications, not fewer than a quarter of 4096^2 = {}", w, 4096u64 * 4096 / 4));
        }
        info = info.class("absolute_bound_at_4096");
    }
    Ok(info.class(match n {
        0..=255 => "n_128..255_karatsuba_band",
        256..=511 => "n_256..511",
        512..=1023 => "n_512..1023",
        1024..=2047 => "n_1024..2047",
        2048..=4095 => "n_2048..4095",
        _ => "n_4096+",
    }))
}

fn unbalanced(n: usize, m: usize, seed: u64) -> Verdict {
    let w = work(&dense(seed, n), &dense(seed ^ 0xaa, m))?;
    let school = n as u64 * m as u64;
    if std::env::var_os("VERIF_C20_TRACE").is_some() {
        eprintln!("C20-trace n={} m={} w={} school={} frac={:.3}", n, m, w, school, w as f64 / school as f64);
    }
    if w > school {
        return Err(format!("an unbalanced {} x {} digit product used {} digit multiplications, more than the schoolbook count {}", n, m, w, school));
    }
    // and the other operand order
    let w2 = work(&dense(seed ^ 0xaa, m), &dense(seed, n))?;
    if w2 > school {
        return Err(format!("an unbalanced {} x {} digit product used {} digit multiplications, more than the schoolbook count {}", m, n, w2, school));
    }
    Ok(Info::new(true).class("unbalanced_vs_schoolbook").class_if(m >= 60 * n, "shape_n_x_64n").class_if(m == 2 * n, "shape_n_x_2n").class_if(m + 1 == 2 * n, "shape_n_x_2n-1").class_if(m > n && m < 2 * n - 1, "shape_near_balanced"))
}

impl Property for C20 {
    fn id(&self) -> &'static str {
        "C20"
    }
    fn rule(&self) -> &'static str {
        "Cases: balanced (n, operand seed) for n in {256, 320, 384, 512, 768, 1024, 1536, 2048} (quick; thorough adds 3072, 4096, 6144, 8192) and for n anywhere in 128..=255 (the upper Karatsuba band, where doubling crosses into Toom-3) with dense operands (every digit non-zero) W(2n)/W(n) <= 3.4 where W counts the digit multiplications of one product through the work-counter hook - for `&a * &b`, for `a *= &b` on an object whose buffer has spare capacity from an earlier larger value, and for the self-product `&a * &a`; in 40% of the cases operands with every other digit (or two digits in three) zero are added and must not cost more than 1.25x the dense operands of the same length in any of the three forms - and W(4096 x 4096) < 4096^2/4 whenever 4096 is one of the two sizes; unbalanced (n, m, seed) over the shapes n x (2n-1), n x 2n, n x 3n, n x 64n for n in {33, 64, 100, 256, 300, 512}, plus free shapes n x m with n in 33..=600 and m from n+1 (near-balanced) to 64n: W <= n*m in both operand orders. Every product is also checked for correctness by modular fingerprints (and exactly when the shorter operand has <= 600 digits). Non-trivial: every case (all sizes are above the documented thresholds); distinct by (shape, seed)."
    }
    fn technique(&self) -> &'static str {
        "metamorphic property-based testing (proptest) on a deterministic work counter (no timing): cost ratios under length doubling and against the schoolbook count"
    }
    fn strategy(&self, tier: Tier) -> BoxedStrategy<Case> {
        let sizes: Vec<u64> = match tier {
            Tier::Quick => vec![256, 320, 384, 512, 768, 1024, 1536, 2048],
            Tier::Thorough => vec![256, 320, 384, 512, 768, 1024, 1536, 2048, 3072, 4096, 6144, 8192],
        };
        let ub: Vec<(u64, u64)> = {
            let mut v = vec![];
            for n in [33u64, 64, 100, 256, 300, 512] {
                v.push((n, 2 * n - 1));
                v.push((n, 2 * n));
                v.push((n, 3 * n));
                v.push((n, 64 * n));
            }
            v
        };
        // the upper half of the Karatsuba band, where doubling crosses into Toom-3.  (Doubling gives 3 from 33 digits
        // up on this tree, but lengths below 128 are left out on purpose: a retuned Karatsuba threshold of up to 2n
        // would turn the law into an alarm about a tuning decision, which the property does not forbid.)
        let small_sizes = prop_oneof![select(vec![128u64, 129, 160, 192, 200, 255]), 128u64..=255];
        // free unbalanced shapes, near-balanced (m in (n, 2n)) and wide
        let free = prop_oneof![
            (33u64..=600, 101u64..=200).prop_map(|(n, f)| (n, n * f / 100 + 1)),
            (33u64..=600, 2u64..=64).prop_map(|(n, f)| (n, n * f - f % 3)),
        ];
        prop_oneof![
            15 => (small_sizes, any::<u64>(), prop_oneof![60 => Just(0u64), 40 => 0u64..9]).prop_map(|(n, s, p)| Case::new("balanced", vec![Arg::U(n as u128), Arg::U(s as u128), Arg::U(p as u128)])),
            15 => (free, any::<u64>()).prop_map(|((n, m), s)| Case::new("unbalanced", vec![Arg::U(n as u128), Arg::U(m as u128), Arg::U(s as u128)])),
            35 => (select(sizes), any::<u64>(), prop_oneof![60 => Just(0u64), 40 => 0u64..9]).prop_map(|(n, s, p)| Case::new("balanced", vec![Arg::U(n as u128), Arg::U(s as u128), Arg::U(p as u128)])),
            35 => (select(ub), any::<u64>()).prop_map(|((n, m), s)| Case::new("unbalanced", vec![Arg::U(n as u128), Arg::U(m as u128), Arg::U(s as u128)])),
        ]
        .boxed()
    }
    fn check(&self, c: &Case) -> Verdict {
        match c.op.as_str() {
            "balanced" => {
                let n = c.u(0) as usize;
                if !(128..=16384).contains(&n) {
                    return Err("harness: size outside the generated domain".into());
                }
                balanced(n, c.u(1) as u64, if c.args.len() > 2 { c.u(2) as u64 } else { 0 })
            }
            "unbalanced" => {
                let (n, m) = (c.u(0) as usize, c.u(1) as usize);
                if n < 33 || m < n || m > 64 * 600 {
                    return Err("harness: shape outside the generated domain".into());
                }
                unbalanced(n, m, c.u(2) as u64)
            }
            o => Err(format!("unknown op {}", o)),
        }
    }
    fn budget(&self, tier: Tier) -> Budget {
        match tier {
            Tier::Quick => Budget { release: 8_000, dbg: 0, workers: 8 },
            Tier::Thorough => Budget { release: 300_000, dbg: 0, workers: 16 },
        }
    }
    fn probes(&self) -> Vec<Probe> {
        use Probe::*;
        vec![MUL_MAC_ROW_WORK, MUL_KARATSUBA, MUL_HALF_KARATSUBA, MUL_TOOM3, MUL_LONG]
    }
    fn assumptions(&self) -> Vec<String> {
        vec![
            "the work counter hook (one add-only statement in the multiply-accumulate row routine) counts every elementary digit multiplication of the product; cost outside that routine (Toom-3's additions and small divisions, allocation) is not measured".into(),
            "each worker is single-threaded over cases, so counter deltas belong to one product".into(),
        ]
    }
}
