//! C03 — division yields the unique quotient/remainder of each rounding convention.
use crate::engine::*;
use crate::gen;
use crate::lib_util::*;
use crate::refint::{Nat, RefInt};
use nbcase::{Arg, Case};
use num_bigint::verif_probe::Probe;
use num_bigint::{BigInt, BigUint};
use num_integer::Integer;
use num_traits::{CheckedDiv, CheckedEuclid, Euclid};
use proptest::prelude::*;
use std::cmp::Ordering;

pub struct C03;

fn is_none<T: std::fmt::Debug>(what: &str, f: impl FnOnce() -> Option<T>) -> Result<(), String> {
    match catch(f) {
        Ok(None) => Ok(()),
        Ok(Some(v)) => Err(format!("{} returned Some({}) for a zero divisor", what, trunc(&format!("{:?}", v), 100))),
        Err(m) => Err(format!("{} panicked ({:?}) for a zero divisor; it must return None", what, m)),
    }
}

pub fn check_u(a: &[u64], b: &[u64]) -> Verdict {
    let x = bu(a);
    let y = bu(b);
    let ra = rn(a);
    let rb = rn(b);
    if rb.is_zero() {
        must_panic("&a / &0", || &x / &y)?;
        must_panic("a / 0", || x.clone() / y.clone())?;
        must_panic("a / &0", || x.clone() / &y)?;
        must_panic("&a / 0", || &x / y.clone())?;
        must_panic("&a % &0", || &x % &y)?;
        must_panic("a % 0", || x.clone() % y.clone())?;
        must_panic("a /= &0", || { let mut t = x.clone(); t /= &y; t })?;
        must_panic("a %= &0", || { let mut t = x.clone(); t %= &y; t })?;
        must_panic("div_rem(0)", || x.div_rem(&y))?;
        must_panic("div_floor(0)", || x.div_floor(&y))?;
        must_panic("mod_floor(0)", || x.mod_floor(&y))?;
        must_panic("div_mod_floor(0)", || x.div_mod_floor(&y))?;
        must_panic("div_ceil(0)", || Integer::div_ceil(&x, &y))?;
        must_panic("div_euclid(0)", || x.div_euclid(&y))?;
        must_panic("rem_euclid(0)", || x.rem_euclid(&y))?;
        must_panic("div_rem_euclid(0)", || x.div_rem_euclid(&y))?;
        is_none("BigUint::checked_div", || x.checked_div(&y))?;
        is_none("BigUint::checked_div_euclid", || x.checked_div_euclid(&y))?;
        is_none("BigUint::checked_rem_euclid", || x.checked_rem_euclid(&y))?;
        is_none("BigUint::checked_div_rem_euclid", || x.checked_div_rem_euclid(&y))?;
        return Ok(Info::new(true).class("biguint").class("zero_divisor"));
    }
    let (q, r) = must_return("BigUint::div_rem", || x.div_rem(&y))?;
    let (nq, nr) = (nat_of_bu(&q), nat_of_bu(&r));
    eq_bu(&q, &nq)?; // canonical form of the export
    eq_bu(&r, &nr)?;
    if !nr.lt(&rb) {
        return Err(format!("div_rem: remainder 0x{} is not below the divisor", trunc(&nr.to_string_radix(16, false), 200)));
    }
    if nq.mul(&rb).add(&nr) != ra {
        return Err(format!(
            "div_rem: q*b + r != a (q=0x{}, r=0x{})",
            trunc(&nq.to_string_radix(16, false), 200),
            trunc(&nr.to_string_radix(16, false), 200)
        ));
    }
    // every other API must agree with the unique pair
    let eqq = |what: &str, v: Result<BigUint, String>| ctx(v.and_then(|v| eq_bu(&v, &nq)), what);
    let eqr = |what: &str, v: Result<BigUint, String>| ctx(v.and_then(|v| eq_bu(&v, &nr)), what);
    eqq("&a / &b", must_return("div", || &x / &y))?;
    eqq("a / b", must_return("div", || x.clone() / y.clone()))?;
    eqq("a / &b", must_return("div", || x.clone() / &y))?;
    eqq("&a / b", must_return("div", || &x / y.clone()))?;
    eqq("a /= &b", must_return("div_assign", || { let mut t = x.clone(); t /= &y; t }))?;
    eqq("a /= b", must_return("div_assign", || { let mut t = x.clone(); t /= y.clone(); t }))?;
    eqr("&a % &b", must_return("rem", || &x % &y))?;
    eqr("a % b", must_return("rem", || x.clone() % y.clone()))?;
    eqr("a % &b", must_return("rem", || x.clone() % &y))?;
    eqr("&a % b", must_return("rem", || &x % y.clone()))?;
    eqr("a %= &b", must_return("rem_assign", || { let mut t = x.clone(); t %= &y; t }))?;
    eqr("a %= b", must_return("rem_assign", || { let mut t = x.clone(); t %= y.clone(); t }))?;
    eqq("div_floor", must_return("div_floor", || x.div_floor(&y)))?;
    eqr("mod_floor", must_return("mod_floor", || x.mod_floor(&y)))?;
    let (q2, r2) = must_return("div_mod_floor", || x.div_mod_floor(&y))?;
    eqq("div_mod_floor.0", Ok(q2))?;
    eqr("div_mod_floor.1", Ok(r2))?;
    eqq("div_euclid", must_return("div_euclid", || x.div_euclid(&y)))?;
    eqr("rem_euclid", must_return("rem_euclid", || x.rem_euclid(&y)))?;
    let (q2, r2) = must_return("div_rem_euclid", || x.div_rem_euclid(&y))?;
    eqq("div_rem_euclid.0", Ok(q2))?;
    eqr("div_rem_euclid.1", Ok(r2))?;
    let ceil = if nr.is_zero() { nq.clone() } else { nq.add(&Nat::one()) };
    ctx(must_return("div_ceil", || Integer::div_ceil(&x, &y)).and_then(|v| eq_bu(&v, &ceil)), "div_ceil")?;
    let some = |what: &str, v: Result<Option<BigUint>, String>, want: &Nat| -> Result<(), String> {
        match v? {
            Some(v) => ctx(eq_bu(&v, want), what),
            None => Err(format!("{} returned None for a non-zero divisor", what)),
        }
    };
    some("checked_div", must_return("checked_div", || x.checked_div(&y)), &nq)?;
    some("checked_div_euclid", must_return("checked_div_euclid", || x.checked_div_euclid(&y)), &nq)?;
    some("checked_rem_euclid", must_return("checked_rem_euclid", || x.checked_rem_euclid(&y)), &nr)?;
    match must_return("checked_div_rem_euclid", || x.checked_div_rem_euclid(&y))? {
        Some((q2, r2)) => {
            eqq("checked_div_rem_euclid.0", Ok(q2))?;
            eqr("checked_div_rem_euclid.1", Ok(r2))?;
        }
        None => return Err("checked_div_rem_euclid returned None for a non-zero divisor".into()),
    }
    eq_bu(&x, &ra).map_err(|e| format!("borrowed dividend changed: {}", e))?;
    eq_bu(&y, &rb).map_err(|e| format!("borrowed divisor changed: {}", e))?;
    let knuth = rb.to_u64_digits().len() >= 2 && ra.cmp(&rb) == Ordering::Greater;
    Ok(Info::new(knuth)
        .class("biguint")
        .class_if(knuth, "knuth_d")
        .class_if(rb.to_u64_digits().len() == 1, "single_digit_divisor")
        .class_if(ra.cmp(&rb) == Ordering::Less, "a_lt_b")
        .class_if(ra == rb, "a_eq_b")
        .class_if(nr.is_zero(), "exact")
        .class_if(knuth && nq.to_u64_digits().len() > 1, "multi_digit_quotient"))
}

fn abs_lt(r: &RefInt, b: &RefInt) -> bool {
    r.mag.lt(&b.mag)
}

pub fn check_i(sa: bool, a: &[u64], sb: bool, b: &[u64]) -> Verdict {
    let x = bi(sa, a);
    let y = bi(sb, b);
    let ra = ri(sa, a);
    let rb = ri(sb, b);
    if rb.is_zero() {
        must_panic("&a / &0", || &x / &y)?;
        must_panic("a / 0", || x.clone() / y.clone())?;
        must_panic("&a % &0", || &x % &y)?;
        must_panic("a % 0", || x.clone() % y.clone())?;
        must_panic("a /= &0", || { let mut t = x.clone(); t /= &y; t })?;
        must_panic("a %= &0", || { let mut t = x.clone(); t %= &y; t })?;
        must_panic("div_rem(0)", || x.div_rem(&y))?;
        must_panic("div_floor(0)", || x.div_floor(&y))?;
        must_panic("mod_floor(0)", || x.mod_floor(&y))?;
        must_panic("div_mod_floor(0)", || x.div_mod_floor(&y))?;
        must_panic("div_ceil(0)", || Integer::div_ceil(&x, &y))?;
        must_panic("div_euclid(0)", || x.div_euclid(&y))?;
        must_panic("rem_euclid(0)", || x.rem_euclid(&y))?;
        must_panic("div_rem_euclid(0)", || x.div_rem_euclid(&y))?;
        is_none("BigInt::checked_div", || x.checked_div(&y))?;
        is_none("<BigInt as CheckedDiv>::checked_div", || CheckedDiv::checked_div(&x, &y))?;
        is_none("BigInt::checked_div_euclid", || x.checked_div_euclid(&y))?;
        is_none("BigInt::checked_rem_euclid", || x.checked_rem_euclid(&y))?;
        is_none("BigInt::checked_div_rem_euclid", || x.checked_div_rem_euclid(&y))?;
        return Ok(Info::new(true).class("bigint").class("zero_divisor"));
    }
    let identity = |what: &str, q: &BigInt, r: &BigInt| -> Result<(RefInt, RefInt), String> {
        let (nq, nr) = (ref_of_bi(q), ref_of_bi(r));
        ctx(eq_bi(q, &nq), what)?;
        ctx(eq_bi(r, &nr), what)?;
        if nq.mul(&rb).add(&nr) != ra {
            return Err(format!("{}: q*b + r != a (q={}, r={})", what, trunc(&nq.hex(), 200), trunc(&nr.hex(), 200)));
        }
        if !abs_lt(&nr, &rb) {
            return Err(format!("{}: |r| >= |b| (r={})", what, trunc(&nr.hex(), 200)));
        }
        Ok((nq, nr))
    };
    // truncation: r = 0 or sign(r) = sign(a)
    let (q, r) = must_return("BigInt::div_rem", || x.div_rem(&y))?;
    let (tq, tr) = identity("div_rem", &q, &r)?;
    if !tr.is_zero() && tr.neg != ra.neg {
        return Err(format!("div_rem: remainder {} does not carry the sign of the dividend", trunc(&tr.hex(), 100)));
    }
    let eq = |what: &str, v: Result<BigInt, String>, want: &RefInt| ctx(v.and_then(|v| eq_bi(&v, want)), what);
    eq("&a / &b", must_return("div", || &x / &y), &tq)?;
    eq("a / b", must_return("div", || x.clone() / y.clone()), &tq)?;
    eq("a / &b", must_return("div", || x.clone() / &y), &tq)?;
    eq("&a / b", must_return("div", || &x / y.clone()), &tq)?;
    eq("a /= &b", must_return("div_assign", || { let mut t = x.clone(); t /= &y; t }), &tq)?;
    eq("a /= b", must_return("div_assign", || { let mut t = x.clone(); t /= y.clone(); t }), &tq)?;
    eq("&a % &b", must_return("rem", || &x % &y), &tr)?;
    eq("a % b", must_return("rem", || x.clone() % y.clone()), &tr)?;
    eq("a % &b", must_return("rem", || x.clone() % &y), &tr)?;
    eq("&a % b", must_return("rem", || &x % y.clone()), &tr)?;
    eq("a %= &b", must_return("rem_assign", || { let mut t = x.clone(); t %= &y; t }), &tr)?;
    eq("a %= b", must_return("rem_assign", || { let mut t = x.clone(); t %= y.clone(); t }), &tr)?;
    match must_return("checked_div", || x.checked_div(&y))? {
        Some(v) => ctx(eq_bi(&v, &tq), "checked_div")?,
        None => return Err("BigInt::checked_div returned None for a non-zero divisor".into()),
    }
    // the trait method is a separate impl from the inherent one (generic callers reach only the trait)
    match must_return("CheckedDiv::checked_div", || CheckedDiv::checked_div(&x, &y))? {
        Some(v) => ctx(eq_bi(&v, &tq), "<BigInt as CheckedDiv>::checked_div")?,
        None => return Err("<BigInt as CheckedDiv>::checked_div returned None for a non-zero divisor".into()),
    }
    // flooring: r = 0 or sign(r) = sign(b)
    let (q, r) = must_return("BigInt::div_mod_floor", || x.div_mod_floor(&y))?;
    let (fq, fr) = identity("div_mod_floor", &q, &r)?;
    if !fr.is_zero() && fr.neg != rb.neg {
        return Err(format!("div_mod_floor: remainder {} does not carry the sign of the divisor", trunc(&fr.hex(), 100)));
    }
    eq("div_floor", must_return("div_floor", || x.div_floor(&y)), &fq)?;
    eq("mod_floor", must_return("mod_floor", || x.mod_floor(&y)), &fr)?;
    // euclid: 0 <= r < |b|
    let (q, r) = must_return("BigInt::div_rem_euclid", || x.div_rem_euclid(&y))?;
    let (eq_, er) = identity("div_rem_euclid", &q, &r)?;
    if er.neg {
        return Err(format!("div_rem_euclid: negative remainder {}", trunc(&er.hex(), 100)));
    }
    eq("div_euclid", must_return("div_euclid", || x.div_euclid(&y)), &eq_)?;
    eq("rem_euclid", must_return("rem_euclid", || x.rem_euclid(&y)), &er)?;
    match must_return("checked_div_euclid", || x.checked_div_euclid(&y))? {
        Some(v) => ctx(eq_bi(&v, &eq_), "checked_div_euclid")?,
        None => return Err("BigInt::checked_div_euclid returned None for a non-zero divisor".into()),
    }
    match must_return("checked_rem_euclid", || x.checked_rem_euclid(&y))? {
        Some(v) => ctx(eq_bi(&v, &er), "checked_rem_euclid")?,
        None => return Err("BigInt::checked_rem_euclid returned None for a non-zero divisor".into()),
    }
    match must_return("checked_div_rem_euclid", || x.checked_div_rem_euclid(&y))? {
        Some((q2, r2)) => {
            ctx(eq_bi(&q2, &eq_), "checked_div_rem_euclid.0")?;
            ctx(eq_bi(&r2, &er), "checked_div_rem_euclid.1")?;
        }
        None => return Err("BigInt::checked_div_rem_euclid returned None for a non-zero divisor".into()),
    }
    // ceiling: e = q*b - a with 0 <= e < b (b > 0) or b < e <= 0 (b < 0)
    let c = must_return("BigInt::div_ceil", || Integer::div_ceil(&x, &y))?;
    let nc = ref_of_bi(&c);
    ctx(eq_bi(&c, &nc), "div_ceil")?;
    let e = nc.mul(&rb).sub(&ra);
    let ok = if rb.neg {
        (e.is_zero() || e.neg) && e.mag.lt(&rb.mag)
    } else {
        !e.neg && e.mag.lt(&rb.mag)
    };
    if !ok {
        return Err(format!("div_ceil: {} is not the ceiling of a/b (q*b - a = {})", trunc(&nc.hex(), 200), trunc(&e.hex(), 200)));
    }
    eq_bi(&x, &ra).map_err(|e| format!("borrowed dividend changed: {}", e))?;
    eq_bi(&y, &rb).map_err(|e| format!("borrowed divisor changed: {}", e))?;
    let knuth = rb.mag.to_u64_digits().len() >= 2 && ra.mag.cmp(&rb.mag) == Ordering::Greater;
    let sc = match (ra.signum(), rb.signum()) {
        (1, 1) => "sign(+,+)",
        (1, -1) => "sign(+,-)",
        (-1, 1) => "sign(-,+)",
        (-1, -1) => "sign(-,-)",
        _ => "sign(0,_)",
    };
    Ok(Info::new(knuth)
        .class("bigint")
        .class(sc)
        .class_if(knuth, "knuth_d")
        .class_if(tr.is_zero(), "exact")
        .class_if(!tr.is_zero() && fq != tq, "floor_differs_from_trunc")
        .class_if(!tr.is_zero() && eq_ != tq, "euclid_differs_from_trunc"))
}

/// scalar forms: BigUint (op) u32/u64/u128 and scalar (op) BigUint
fn check_us(a: &[u64], s: u128) -> Verdict {
    let x = bu(a);
    let ra = rn(a);
    let rs = Nat::from_u128(s);
    macro_rules! forms {
        ($t:ty, $v:expr) => {{
            let v: $t = $v;
            if v == 0 {
                must_panic(concat!("&a / 0", stringify!($t)), || &x / v)?;
                must_panic(concat!("a / 0", stringify!($t)), || x.clone() / v)?;
                must_panic(concat!("&a % 0", stringify!($t)), || &x % v)?;
                must_panic(concat!("a /= 0", stringify!($t)), || { let mut t = x.clone(); t /= v; t })?;
                must_panic(concat!("a %= 0", stringify!($t)), || { let mut t = x.clone(); t %= v; t })?;
            } else {
                let q = must_return("a / scalar", || &x / v)?;
                let r = must_return("a % scalar", || &x % v)?;
                let (nq, nr) = (nat_of_bu(&q), nat_of_bu(&r));
                eq_bu(&q, &nq)?;
                eq_bu(&r, &nr)?;
                if !nr.lt(&rs) || nq.mul(&rs).add(&nr) != ra {
                    return Err(format!("BigUint / {} {}: wrong quotient/remainder q=0x{} r=0x{}", stringify!($t), v, nq.to_string_radix(16, false), nr.to_string_radix(16, false)));
                }
                ctx(must_return("a / s (val)", || x.clone() / v).and_then(|t| eq_bu(&t, &nq)), concat!("BigUint / ", stringify!($t), " (val)"))?;
                ctx(must_return("a % s (val)", || x.clone() % v).and_then(|t| eq_bu(&t, &nr)), concat!("BigUint % ", stringify!($t), " (val)"))?;
                ctx(must_return("a /= s", || { let mut t = x.clone(); t /= v; t }).and_then(|t| eq_bu(&t, &nq)), concat!("BigUint /= ", stringify!($t)))?;
                ctx(must_return("a %= s", || { let mut t = x.clone(); t %= v; t }).and_then(|t| eq_bu(&t, &nr)), concat!("BigUint %= ", stringify!($t)))?;
            }
            if ra.is_zero() {
                must_panic(concat!(stringify!($t), " / &0"), || v / &x)?;
                must_panic(concat!(stringify!($t), " / 0"), || v / x.clone())?;
                must_panic(concat!(stringify!($t), " % &0"), || v % &x)?;
                must_panic(concat!(stringify!($t), " % 0"), || v % x.clone())?;
            } else {
                let q = must_return("scalar / a", || v / &x)?;
                let r = must_return("scalar % a", || v % &x)?;
                let (nq, nr) = (nat_of_bu(&q), nat_of_bu(&r));
                eq_bu(&q, &nq)?;
                eq_bu(&r, &nr)?;
                if !nr.lt(&ra) || nq.mul(&ra).add(&nr) != rs {
                    return Err(format!("{} {} / BigUint: wrong quotient/remainder q=0x{} r=0x{}", stringify!($t), v, nq.to_string_radix(16, false), nr.to_string_radix(16, false)));
                }
                ctx(must_return("s / a (val)", || v / x.clone()).and_then(|t| eq_bu(&t, &nq)), concat!(stringify!($t), " / BigUint (val)"))?;
                ctx(must_return("s % a (val)", || v % x.clone()).and_then(|t| eq_bu(&t, &nr)), concat!(stringify!($t), " % BigUint (val)"))?;
            }
        }};
    }
    if let Ok(v) = u32::try_from(s) {
        forms!(u32, v);
    }
    if let Ok(v) = u64::try_from(s) {
        forms!(u64, v);
    }
    forms!(u128, s);
    Ok(Info::new(!ra.is_zero() && s != 0 && ra.to_u64_digits().len() >= 2)
        .class("scalar_forms")
        .class_if(s == 0 || ra.is_zero(), "zero_divisor")
        .class_if(s > u64::MAX as u128, "scalar_two_digits"))
}

/// divisions too large for the schoolbook reference: a = q*b + r is checked modulo three 61-bit primes on the
/// exported digits (u128 arithmetic, independent of the library), r < b by digit comparison
fn check_big(a: &[u64], b: &[u64]) -> Verdict {
    use crate::refint::{fingerprint_u64_digits, FP_PRIMES};
    let (x, y) = (bu(a), bu(b));
    if gen::trim(b.to_vec()).is_empty() {
        return Err("harness: zero divisor outside the generated domain".into());
    }
    let (q, r) = must_return("BigUint::div_rem", || x.div_rem(&y))?;
    let (qd, rd, bd) = (q.to_u64_digits(), r.to_u64_digits(), y.to_u64_digits());
    if qd.last() == Some(&0) || rd.last() == Some(&0) {
        return Err("div_rem result is not canonical".into());
    }
    let less = rd.len() < bd.len() || (rd.len() == bd.len() && rd.iter().rev().cmp(bd.iter().rev()) == Ordering::Less);
    if !less {
        return Err("div_rem (large operands): remainder is not below the divisor".into());
    }
    let ad = x.to_u64_digits();
    for p in FP_PRIMES {
        let f = |d: &[u64]| fingerprint_u64_digits(d, p) as u128;
        if (f(&qd) * f(&bd) + f(&rd)) % p as u128 != f(&ad) {
            return Err(format!("div_rem (large operands): q*b + r != a modulo the 61-bit prime {}", p));
        }
    }
    // the operator forms agree with div_rem
    if must_return("&a / &b", || &x / &y)? != q || must_return("&a % &b", || &x % &y)? != r || must_return("a / b", || x.clone() / y.clone())? != q || must_return("a % b", || x.clone() % y.clone())? != r {
        return Err("/ and % disagree with div_rem on large operands".into());
    }
    Ok(Info::new(bd.len() >= 2).class("large_operands_fingerprint_oracle"))
}

/// BigInt (op) primitive and primitive (op) BigInt for / and %: truncation semantics, every type that holds s
fn check_is(sa: bool, a: &[u64], s: i128) -> Verdict {
    let x = bi(sa, a);
    let ra = ri(sa, a);
    let rs = RefInt::from_i128(s);
    macro_rules! forms {
        ($($T:ty),*) => {$(
            if let Ok(v) = <$T>::try_from(s) {
                let tn = stringify!($T);
                if s == 0 {
                    must_panic(&format!("&BigInt / 0{}", tn), || &x / v)?;
                    must_panic(&format!("&BigInt % 0{}", tn), || &x % v)?;
                    must_panic(&format!("BigInt /= 0{}", tn), || { let mut t = x.clone(); t /= v; t })?;
                    must_panic(&format!("BigInt %= 0{}", tn), || { let mut t = x.clone(); t %= v; t })?;
                } else {
                    let (q, r) = ra.divrem_trunc(&rs);
                    // the reference pair is itself validated by the unique-solution predicate
                    if q.mul(&rs).add(&r) != ra || !r.mag.lt(&rs.mag) || (!r.is_zero() && r.neg != ra.neg) {
                        crate::refint::oracle_error("reference truncated division violates its own predicate");
                    }
                    ctx(must_return("a / s", || &x / v).and_then(|t| eq_bi(&t, &q)), &format!("&BigInt / {}", tn))?;
                    ctx(must_return("a / s", || x.clone() / v).and_then(|t| eq_bi(&t, &q)), &format!("BigInt / {}", tn))?;
                    ctx(must_return("a % s", || &x % v).and_then(|t| eq_bi(&t, &r)), &format!("&BigInt % {}", tn))?;
                    ctx(must_return("a % s", || x.clone() % v).and_then(|t| eq_bi(&t, &r)), &format!("BigInt % {}", tn))?;
                    ctx(must_return("a /= s", || { let mut t = x.clone(); t /= v; t }).and_then(|t| eq_bi(&t, &q)), &format!("BigInt /= {}", tn))?;
                    ctx(must_return("a %= s", || { let mut t = x.clone(); t %= v; t }).and_then(|t| eq_bi(&t, &r)), &format!("BigInt %= {}", tn))?;
                }
                if ra.is_zero() {
                    must_panic(&format!("{} / zero BigInt", tn), || v / &x)?;
                    must_panic(&format!("{} % zero BigInt", tn), || v % &x)?;
                } else {
                    let (q, r) = rs.divrem_trunc(&ra);
                    ctx(must_return("s / a", || v / &x).and_then(|t| eq_bi(&t, &q)), &format!("{} / &BigInt", tn))?;
                    ctx(must_return("s / a", || v / x.clone()).and_then(|t| eq_bi(&t, &q)), &format!("{} / BigInt", tn))?;
                    ctx(must_return("s % a", || v % &x).and_then(|t| eq_bi(&t, &r)), &format!("{} % &BigInt", tn))?;
                    ctx(must_return("s % a", || v % x.clone()).and_then(|t| eq_bi(&t, &r)), &format!("{} % BigInt", tn))?;
                }
            }
        )*};
    }
    forms!(i8, i16, i32, i64, isize, i128, u8, u16, u32, u64, usize, u128);
    let mins = [i8::MIN as i128, i16::MIN as i128, i32::MIN as i128, i64::MIN as i128, i128::MIN];
    Ok(Info::new(!ra.is_zero() && s != 0 && s != 1)
        .class("bigint_scalar_forms")
        .class_if(mins.contains(&s), "scalar_is_a_MIN")
        .class_if(s == 0 || ra.is_zero(), "zero_divisor")
        .class_if(s < 0, "negative_scalar"))
}

impl Property for C03 {
    fn id(&self) -> &'static str {
        "C03"
    }
    fn rule(&self) -> &'static str {
        "Cases are (dividend, divisor) pairs for BigUint (div.u), BigInt with all sign pairs (div.i) and scalar forms (div.us: BigUint with u32/u64/u128; div.is: BigInt with all 12 primitive types on either side incl. each type's MIN, both / and %, op-assign), drawn from: independent special-digit operands, single-digit divisors, a<b / a=b / a=b+-1 / equal lengths, every normalisation shift 0..63 of the divisor's top digit, a constructed add-back family (a = Q*[b1,b0]*B^k + tiny, b = [b1,b0]*B^k + lo), a constructed top-digit-equal family, exact and near-exact products q*b + {0,1,b-1}, and zero divisors. The oracle is the unique-solution predicate a = q*b + r plus the range/sign condition of each convention, evaluated with RefInt mul/add/cmp only; every other API form is compared with that pair; zero divisors must panic / give None. Non-trivial: divisor >= 2 digits and |a| > |b| (Knuth D runs), or the zero-divisor clause."
    }
    fn strategy(&self, tier: Tier) -> BoxedStrategy<Case> {
        let ml = 40;
        let zero_or = |p: BoxedStrategy<(Vec<u64>, Vec<u64>)>| {
            prop_oneof![
                96 => p,
                4 => gen::nat(8).prop_map(|a| (a, vec![])),
            ]
        };
        let u = zero_or(gen::div_pair(ml)).prop_map(|(a, b)| Case::new("div.u", vec![Arg::N(a), Arg::N(b)]));
        let i = (any::<bool>(), any::<bool>(), zero_or(gen::div_pair(ml)))
            .prop_map(|(sa, sb, (a, b))| Case::new("div.i", vec![Arg::Z(sa, a), Arg::Z(sb, b)]));
        let us = prop_oneof![
            50 => (gen::nat(6), gen::scalar_u128()).prop_map(|(a, s)| Case::new("div.us", vec![Arg::N(a), Arg::U(s)])),
            35 => (any::<bool>(), gen::nat(4), gen::scalar_i128()).prop_map(|(sa, a, s)| Case::new("div.is", vec![Arg::Z(sa, a), Arg::I(s)])),
            // |big| = |scalar| +- d, multiples of the scalar
            15 => (any::<bool>(), gen::scalar_i128(), -2i128..=2, 1u64..5).prop_map(|(sa, s, d, k)| {
                let m = RefInt::from_u128(s.unsigned_abs()).mul(&RefInt::from_u128(k as u128)).add(&RefInt::from_i128(d));
                Case::new("div.is", vec![Arg::Z(sa, if m.neg { vec![] } else { m.mag.to_u64_digits() }), Arg::I(s)])
            }),
        ];
        match tier {
            Tier::Quick => prop_oneof![45 => u, 45 => i, 10 => us].boxed(),
            Tier::Thorough => {
                let bu_ = gen::div_pair_big(400).prop_map(|(a, b)| Case::new("div.u", vec![Arg::N(a), Arg::N(b)]));
                let bi_ = (any::<bool>(), any::<bool>(), gen::div_pair_big(400))
                    .prop_map(|(sa, sb, (a, b))| Case::new("div.i", vec![Arg::Z(sa, a), Arg::Z(sb, b)]));
                let huge = (gen::big_nat(vec![600, 1000, 2048, 3000, 4096]), gen::big_nat(vec![2, 64, 300, 512, 1000, 2047]), any::<bool>())
                    .prop_map(|(a, b, exact)| {
                        // half of the cases are exact or near-exact multiples q*b + {0, 1, b-1} built with the reference multiplication
                        if exact {
                            let q = gen::trim(a[..a.len().min(600)].to_vec());
                            let rb = rn(&b);
                            let r = match a[0] % 3 { 0 => Nat::zero(), 1 => Nat::one(), _ => rb.sub(&Nat::one()) };
                            let r = if r.lt(&rb) { r } else { Nat::zero() };
                            let prod = rn(&q).mul(&rb).add(&r);
                            Case::new("div.big", vec![Arg::N(prod.to_u64_digits()), Arg::N(b)])
                        } else {
                            Case::new("div.big", vec![Arg::N(a), Arg::N(b)])
                        }
                    });
                prop_oneof![430 => u, 430 => i, 100 => us, 20 => bu_, 20 => bi_, 2 => huge].boxed()
            }
        }
    }
    fn check(&self, c: &Case) -> Verdict {
        match c.op.as_str() {
            "div.u" => check_u(c.n(0), c.n(1)),
            "div.i" => {
                let (sa, a) = c.z(0);
                let (sb, b) = c.z(1);
                check_i(sa, a, sb, b)
            }
            "div.us" => check_us(c.n(0), c.u(1)),
            "div.big" => check_big(c.n(0), c.n(1)),
            "div.is" => {
                let (sa, a) = c.z(0);
                check_is(sa, a, c.i(1))
            }
            o => Err(format!("unknown op {}", o)),
        }
    }
    fn budget(&self, tier: Tier) -> Budget {
        match tier {
            Tier::Quick => Budget { release: 2_400_000, dbg: 800_000, workers: 8 },
            Tier::Thorough => Budget { release: 90_000_000, dbg: 24_000_000, workers: 16 },
        }
    }
    fn probes(&self) -> Vec<Probe> {
        use Probe::*;
        vec![DIV_SINGLE_DIGIT, DIV_SHIFT_ZERO, DIV_SHIFT_NONZERO, DIV_KNUTH_STEP, DIV_TOP_DIGIT_EQUAL, DIV_REFINE_ITER, DIV_ADD_BACK]
    }
    fn assumptions(&self) -> Vec<String> {
        vec![
            "RefInt mul/add/cmp (schoolbook, cross-checked against CPython) are correct; RefInt division is not used for the verdict".into(),
            "operand lengths up to 40 digits (quick) / 400 digits (thorough) with the exact predicate; thorough adds dividends up to 4096 and divisors up to 2047 digits decided by three 61-bit modular fingerprints of a = q*b + r and a digit-wise r < b".into(),
        ]
    }
}
