//! C13 — GCD, LCM, Bezout coefficients and multiple-of helpers are exact.
use crate::engine::*;
use crate::gen;
use crate::lib_util::*;
use crate::refint::{Nat, RefInt};
use nbcase::{Arg, Case};
use num_integer::Integer;
use proptest::prelude::*;

pub struct C13;

fn check_i(sa: bool, a: &[u64], sb: bool, b: &[u64]) -> Verdict {
    let (x, y) = (bi(sa, a), bi(sb, b));
    let (ra, rb) = (ri(sa, a), ri(sb, b));
    let g = ra.gcd(&rb); // reference Euclid, non-negative
    let l = if ra.is_zero() || rb.is_zero() { RefInt::zero() } else { RefInt::from_nat(ra.mag.mul(&rb.mag).divrem(&g.mag).0) };
    ctx(must_return("gcd", || x.gcd(&y)).and_then(|v| eq_bi(&v, &g)), "BigInt::gcd")?;
    ctx(must_return("gcd", || y.gcd(&x)).and_then(|v| eq_bi(&v, &g)), "BigInt::gcd (swapped)")?;
    ctx(must_return("lcm", || x.lcm(&y)).and_then(|v| eq_bi(&v, &l)), "BigInt::lcm")?;
    let (g2, l2) = must_return("gcd_lcm", || x.gcd_lcm(&y))?;
    ctx(eq_bi(&g2, &g), "BigInt::gcd_lcm.0")?;
    ctx(eq_bi(&l2, &l), "BigInt::gcd_lcm.1")?;
    // Bezout
    let e = must_return("extended_gcd", || x.extended_gcd(&y))?;
    ctx(eq_bi(&e.gcd, &g), "BigInt::extended_gcd gcd")?;
    let (ex, ey) = (ref_of_bi(&e.x), ref_of_bi(&e.y));
    ctx(eq_bi(&e.x, &ex), "extended_gcd x canonical")?;
    ctx(eq_bi(&e.y, &ey), "extended_gcd y canonical")?;
    if ra.mul(&ex).add(&rb.mul(&ey)) != g {
        return Err(format!("extended_gcd: a*x + b*y != gcd (x={}, y={})", trunc(&ex.hex(), 120), trunc(&ey.hex(), 120)));
    }
    let (e2, l3) = must_return("extended_gcd_lcm", || x.extended_gcd_lcm(&y))?;
    ctx(eq_bi(&e2.gcd, &g), "extended_gcd_lcm gcd")?;
    ctx(eq_bi(&l3, &l), "extended_gcd_lcm lcm")?;
    let (ex, ey) = (ref_of_bi(&e2.x), ref_of_bi(&e2.y));
    if ra.mul(&ex).add(&rb.mul(&ey)) != g {
        return Err("extended_gcd_lcm: a*x + b*y != gcd".into());
    }
    // multiples
    let is_mult = if rb.is_zero() { ra.is_zero() } else { ra.mag.rem(&rb.mag).is_zero() };
    if must_return("is_multiple_of", || x.is_multiple_of(&y))? != is_mult {
        return Err(format!("BigInt::is_multiple_of returned {} want {}", !is_mult, is_mult));
    }
    #[allow(deprecated)]
    if must_return("divides", || x.divides(&y))? != is_mult {
        return Err("BigInt::divides disagrees with is_multiple_of's definition".into());
    }
    if rb.is_zero() {
        must_panic("next_multiple_of(0)", || x.next_multiple_of(&y))?;
        must_panic("prev_multiple_of(0)", || x.prev_multiple_of(&y))?;
    } else {
        let m = ra.divrem_floor(&rb).1;
        let next = if m.is_zero() { ra.clone() } else { ra.add(&rb.sub(&m)) };
        let prev = ra.sub(&m);
        let gn = must_return("next_multiple_of", || x.next_multiple_of(&y))?;
        let gp = must_return("prev_multiple_of", || x.prev_multiple_of(&y))?;
        ctx(eq_bi(&gn, &next), "BigInt::next_multiple_of")?;
        ctx(eq_bi(&gp, &prev), "BigInt::prev_multiple_of")?;
        // independent predicate (not the formula): a multiple of b, less than |b| away from a, on the side given by
        // the sign of b (num-integer: next rounds towards the sign of b, prev away from it)
        for (name, got, dir) in [("next_multiple_of", ref_of_bi(&gn), 1), ("prev_multiple_of", ref_of_bi(&gp), -1)] {
            if !got.mag.rem(&rb.mag).is_zero() {
                return Err(format!("BigInt::{}: result is not a multiple of the argument", name));
            }
            let d = got.sub(&ra); // result - a
            let toward = if rb.neg { -dir } else { dir };
            let ok_side = d.is_zero() || (d.signum() == toward);
            if !d.mag.lt(&rb.mag) || !ok_side {
                return Err(format!("BigInt::{}: result {} is not the nearest multiple on the documented side of {}", name, trunc(&got.hex(), 80), trunc(&ra.hex(), 80)));
            }
        }
    }
    if x.is_even() != !ra.mag.is_odd() || x.is_odd() != ra.mag.is_odd() {
        return Err("BigInt::is_even/is_odd wrong".into());
    }
    ctx(must_return("inc", || { let mut t = x.clone(); t.inc(); t }).and_then(|v| eq_bi(&v, &ra.add(&RefInt::one()))), "BigInt::inc")?;
    ctx(must_return("dec", || { let mut t = x.clone(); t.dec(); t }).and_then(|v| eq_bi(&v, &ra.sub(&RefInt::one()))), "BigInt::dec")?;
    let tza = ra.mag.trailing_zeros().unwrap_or(0);
    let tzb = rb.mag.trailing_zeros().unwrap_or(0);
    let nt = !ra.is_zero() && !rb.is_zero() && ((!g.mag.is_one() && g.mag != ra.mag && g.mag != rb.mag) || tza.abs_diff(tzb) >= 64);
    Ok(Info::new(nt)
        .class("bigint")
        .class_if(ra.is_zero() || rb.is_zero(), "has_zero")
        .class_if(g.mag.is_one(), "coprime")
        .class_if(tza.abs_diff(tzb) >= 64 && !ra.is_zero() && !rb.is_zero(), "trailing_zero_counts_differ_by_a_digit")
        .class_if(tza.min(tzb) >= 64, "common_power_of_two_spans_digits")
        .class_if(ra.mag.count_ones() == 1 && ra.mag.bits() % 64 == 1 && ra.mag.bits() > 1, "a_is_power_of_B")
        .class_if(is_mult && !rb.is_zero() && !ra.is_zero(), "a_multiple_of_b"))
}

fn check_u(a: &[u64], b: &[u64]) -> Verdict {
    let (x, y) = (bu(a), bu(b));
    let (ra, rb) = (rn(a), rn(b));
    let g = ra.gcd(&rb);
    let l = if ra.is_zero() || rb.is_zero() { Nat::zero() } else { ra.mul(&rb).divrem(&g).0 };
    ctx(must_return("gcd", || x.gcd(&y)).and_then(|v| eq_bu(&v, &g)), "BigUint::gcd")?;
    ctx(must_return("gcd", || y.gcd(&x)).and_then(|v| eq_bu(&v, &g)), "BigUint::gcd (swapped)")?;
    ctx(must_return("lcm", || x.lcm(&y)).and_then(|v| eq_bu(&v, &l)), "BigUint::lcm")?;
    let (g2, l2) = must_return("gcd_lcm", || x.gcd_lcm(&y))?;
    ctx(eq_bu(&g2, &g), "BigUint::gcd_lcm.0")?;
    ctx(eq_bu(&l2, &l), "BigUint::gcd_lcm.1")?;
    let is_mult = if rb.is_zero() { ra.is_zero() } else { ra.rem(&rb).is_zero() };
    if must_return("is_multiple_of", || x.is_multiple_of(&y))? != is_mult {
        return Err(format!("BigUint::is_multiple_of returned {} want {}", !is_mult, is_mult));
    }
    if rb.is_zero() {
        must_panic("next_multiple_of(0)", || x.next_multiple_of(&y))?;
        must_panic("prev_multiple_of(0)", || x.prev_multiple_of(&y))?;
    } else {
        let m = ra.rem(&rb);
        let next = if m.is_zero() { ra.clone() } else { ra.add(&rb.sub(&m)) };
        let prev = ra.sub(&m);
        ctx(must_return("next_multiple_of", || x.next_multiple_of(&y)).and_then(|v| eq_bu(&v, &next)), "BigUint::next_multiple_of")?;
        ctx(must_return("prev_multiple_of", || x.prev_multiple_of(&y)).and_then(|v| eq_bu(&v, &prev)), "BigUint::prev_multiple_of")?;
    }
    if x.is_even() != !ra.is_odd() || x.is_odd() != ra.is_odd() {
        return Err("BigUint::is_even/is_odd wrong".into());
    }
    ctx(must_return("inc", || { let mut t = x.clone(); t.inc(); t }).and_then(|v| eq_bu(&v, &ra.add(&Nat::one()))), "BigUint::inc")?;
    if ra.is_zero() {
        must_panic("BigUint zero.dec()", || { let mut t = x.clone(); t.dec(); t })?;
    } else {
        ctx(must_return("dec", || { let mut t = x.clone(); t.dec(); t }).and_then(|v| eq_bu(&v, &ra.sub(&Nat::one()))), "BigUint::dec")?;
    }
    let tza = ra.trailing_zeros().unwrap_or(0);
    let tzb = rb.trailing_zeros().unwrap_or(0);
    let nt = !ra.is_zero() && !rb.is_zero() && ((!g.is_one() && g != ra && g != rb) || tza.abs_diff(tzb) >= 64);
    Ok(Info::new(nt)
        .class("biguint")
        .class_if(tza.abs_diff(tzb) >= 64 && !ra.is_zero() && !rb.is_zero(), "trailing_zero_counts_differ_by_a_digit")
        .class_if(ra.is_zero() && !rb.is_zero(), "zero_vs_nonzero"))
}

fn pair() -> BoxedStrategy<(Vec<u64>, Vec<u64>)> {
    prop_oneof![
        17 => (gen::nat(6), gen::nat(6)),
        // large, mostly co-prime values and a large common factor (Stein's subtract-shift loop over several asm blocks)
        2 => (gen::big_nat(vec![10, 21, 36]), gen::big_nat(vec![9, 20, 35])),
        1 => (gen::big_nat(vec![8, 12]), gen::big_nat(vec![5, 9, 14]), gen::big_nat(vec![5, 10])).prop_map(|(g, u, v)| (rn(&g).mul(&rn(&u)).to_u64_digits(), rn(&g).mul(&rn(&v)).to_u64_digits())),
        // (g*u*2^s, g*v*2^t) with s,t spanning several digits and multi-digit g
        35 => (gen::nat_nonzero(3), gen::nat(3), gen::nat(3), 0u64..=260, 0u64..=260).prop_map(|(g, u, v, s, t)| {
            let g = rn(&g);
            (g.mul(&rn(&u)).shl(s).to_u64_digits(), g.mul(&rn(&v)).shl(t).to_u64_digits())
        }),
        // one divides the other / equal / zero
        15 => (gen::nat(4), gen::nat(3), 0u8..4).prop_map(|(a, k, w)| {
            let ra = rn(&a);
            match w { 0 => (a.clone(), a), 1 => (ra.mul(&rn(&k)).to_u64_digits(), a), 2 => (a, vec![]), _ => (vec![], a) }
        }),
        // values around powers of B (inc/dec/normalisation edges) and low-zero-digit values vs small even numbers
        15 => (0u64..=5, -1i128..=1, gen::nat(1)).prop_map(|(k, d, b)| {
            (RefInt::from_nat(Nat::pow2(64 * k)).add(&RefInt::from_i128(d)).mag.to_u64_digits(), b)
        }),
        15 => (gen::nat_nonzero(2), 1u64..=3, 0u32..64, gen::digit(), 0u32..8).prop_map(|(hi, z, s, small, t)| {
            // a = hi << (64 z + s) ; b = small even-ish number with t trailing zeros
            (rn(&hi).shl(64 * z + s as u64).to_u64_digits(), rn(&[small | 1]).shl(t as u64).to_u64_digits())
        }),
    ]
    .boxed()
}

impl Property for C13 {
    fn id(&self) -> &'static str {
        "C13"
    }
    fn rule(&self) -> &'static str {
        "Cases are pairs (gcd.i with all sign pairs, gcd.u): independent special-digit values, (g*u*2^s, g*v*2^t) with multi-digit g and s,t in 0..260 (common and differing trailing-zero counts spanning several digits), one dividing the other, equal values, zeros on either side, values B^k+{-1,0,1} (inc/dec and normalisation edges), and a high value with whole zero low digits against a small number with a few trailing zeros. Each case checks gcd (both orders), lcm, gcd_lcm, extended_gcd and extended_gcd_lcm (a*x + b*y = g >= 0 evaluated in RefInt), is_multiple_of / divides, next_/prev_multiple_of against the mod_floor definition (zero argument panics), is_even/is_odd, inc, dec. Reference gcd is Euclid's algorithm over RefInt's self-checked division (the library uses Stein's). Non-trivial: both non-zero and (gcd not in {1,|a|,|b|} or trailing-zero counts differing by >= 64)."
    }
    fn strategy(&self, _tier: Tier) -> BoxedStrategy<Case> {
        prop_oneof![
            65 => (any::<bool>(), any::<bool>(), pair()).prop_map(|(sa, sb, (a, b))| Case::new("gcd.i", vec![Arg::Z(sa, a), Arg::Z(sb, b)])),
            35 => pair().prop_map(|(a, b)| Case::new("gcd.u", vec![Arg::N(a), Arg::N(b)])),
        ]
        .boxed()
    }
    fn check(&self, c: &Case) -> Verdict {
        match c.op.as_str() {
            "gcd.i" => {
                let (sa, a) = c.z(0);
                let (sb, b) = c.z(1);
                check_i(sa, a, sb, b)
            }
            "gcd.u" => check_u(c.n(0), c.n(1)),
            o => Err(format!("unknown op {}", o)),
        }
    }
    fn budget(&self, tier: Tier) -> Budget {
        match tier {
            Tier::Quick => Budget { release: 1_600_000, dbg: 400_000, workers: 8 },
            Tier::Thorough => Budget { release: 40_000_000, dbg: 10_000_000, workers: 16 },
        }
    }
}
