//! C01 — addition and subtraction are exact for every operand length and carry pattern.
use crate::engine::*;
use crate::gen;
use crate::lib_util::*;
use nbcase::{Arg, Case};
use num_bigint::verif_probe::Probe;
use num_bigint::{BigInt, BigUint};
use num_traits::{CheckedAdd, CheckedSub};
use proptest::prelude::*;
use std::cmp::Ordering;

pub struct C01;

fn check_u(a: &[u64], b: &[u64]) -> Verdict {
    let (la, lb) = (gen::trim(a.to_vec()).len(), gen::trim(b.to_vec()).len());
    let x = bu(a);
    let y = bu(b);
    let ra = rn(a);
    let rb = rn(b);
    let sum = ra.add(&rb);
    // ---- addition, every form, both operand orders ----
    for (p, q, tag) in [(&x, &y, "a+b"), (&y, &x, "b+a")] {
        ctx(must_return("&p + &q", || p + q).and_then(|r| eq_bu(&r, &sum)), &format!("BigUint {} (ref+ref)", tag))?;
        ctx(must_return("p + &q", || p.clone() + q).and_then(|r| eq_bu(&r, &sum)), &format!("BigUint {} (val+ref)", tag))?;
        ctx(must_return("&p + q", || p + q.clone()).and_then(|r| eq_bu(&r, &sum)), &format!("BigUint {} (ref+val)", tag))?;
        ctx(must_return("p + q", || p.clone() + q.clone()).and_then(|r| eq_bu(&r, &sum)), &format!("BigUint {} (val+val)", tag))?;
        ctx(must_return("p += &q", || { let mut t = p.clone(); t += q; t }).and_then(|r| eq_bu(&r, &sum)), &format!("BigUint {} (+= ref)", tag))?;
        ctx(must_return("p += q", || { let mut t = p.clone(); t += q.clone(); t }).and_then(|r| eq_bu(&r, &sum)), &format!("BigUint {} (+= val)", tag))?;
        match must_return("checked_add", || p.checked_add(q))? {
            Some(r) => ctx(eq_bu(&r, &sum), &format!("BigUint {} checked_add", tag))?,
            None => return Err(format!("BigUint {} checked_add returned None", tag)),
        }
    }
    // ---- subtraction, every form, both directions ----
    let ord = ra.cmp(&rb);
    for (p, q, rp, rq, o, tag) in [(&x, &y, &ra, &rb, ord, "a-b"), (&y, &x, &rb, &ra, ord.reverse(), "b-a")] {
        if o != Ordering::Less {
            let d = rp.sub(rq);
            ctx(must_return("&p - &q", || p - q).and_then(|r| eq_bu(&r, &d)), &format!("BigUint {} (ref-ref)", tag))?;
            ctx(must_return("p - &q", || p.clone() - q).and_then(|r| eq_bu(&r, &d)), &format!("BigUint {} (val-ref)", tag))?;
            ctx(must_return("&p - q", || p - q.clone()).and_then(|r| eq_bu(&r, &d)), &format!("BigUint {} (ref-val)", tag))?;
            ctx(must_return("p - q", || p.clone() - q.clone()).and_then(|r| eq_bu(&r, &d)), &format!("BigUint {} (val-val)", tag))?;
            ctx(must_return("p -= &q", || { let mut t = p.clone(); t -= q; t }).and_then(|r| eq_bu(&r, &d)), &format!("BigUint {} (-= ref)", tag))?;
            ctx(must_return("p -= q", || { let mut t = p.clone(); t -= q.clone(); t }).and_then(|r| eq_bu(&r, &d)), &format!("BigUint {} (-= val)", tag))?;
            match must_return("checked_sub", || p.checked_sub(q))? {
                Some(r) => ctx(eq_bu(&r, &d), &format!("BigUint {} checked_sub", tag))?,
                None => return Err(format!("BigUint {} checked_sub returned None although minuend >= subtrahend", tag)),
            }
        } else {
            ctx(must_panic("&p - &q", || p - q), &format!("BigUint {} underflow (ref-ref)", tag))?;
            ctx(must_panic("p - &q", || p.clone() - q), &format!("BigUint {} underflow (val-ref)", tag))?;
            ctx(must_panic("&p - q", || p - q.clone()), &format!("BigUint {} underflow (ref-val)", tag))?;
            ctx(must_panic("p - q", || p.clone() - q.clone()), &format!("BigUint {} underflow (val-val)", tag))?;
            ctx(must_panic("p -= &q", || { let mut t = p.clone(); t -= q; t }), &format!("BigUint {} underflow (-= ref)", tag))?;
            ctx(must_panic("p -= q", || { let mut t = p.clone(); t -= q.clone(); t }), &format!("BigUint {} underflow (-= val)", tag))?;
            match must_return("checked_sub", || p.checked_sub(q))? {
                None => {}
                Some(r) => return Err(format!("BigUint {} checked_sub returned Some({}) although minuend < subtrahend", tag, r)),
            }
        }
    }
    // operands must be untouched
    eq_bu(&x, &ra).map_err(|e| format!("borrowed operand a changed: {}", e))?;
    eq_bu(&y, &rb).map_err(|e| format!("borrowed operand b changed: {}", e))?;
    let minl = la.min(lb);
    let crossing = carry_crosses(a, b);
    Ok(Info::new(la > 0 && lb > 0 && (minl >= 5 || crossing))
        .class("biguint")
        .class_if(minl >= 5, "asm_block_len")
        .class_if(crossing, "carry_or_borrow_crosses_digit")
        .class_if(la == lb, "len_equal")
        .class_if(la != lb, "len_unequal")
        .class_if(ord != Ordering::Equal, "biguint_underflow")
        .class_if(ord == Ordering::Equal, "a_eq_b")
        .class_if(sum.to_u64_digits().len() > la.max(lb), "sum_grows")
        .class_if(ord != Ordering::Equal && { let d = if ord == Ordering::Greater { ra.sub(&rb) } else { rb.sub(&ra) }; d.to_u64_digits().len() < la.max(lb) }, "difference_shrinks"))
}

/// model-side classification only: does a carry (for a+b) or a borrow (for the larger minus the
/// smaller) cross a 64-bit digit boundary?
fn carry_crosses(a: &[u64], b: &[u64]) -> bool {
    let n = a.len().max(b.len());
    let g = |v: &[u64], i: usize| v.get(i).copied().unwrap_or(0);
    let mut c = 0u64;
    let mut br = 0u64;
    let mut br2 = 0u64;
    for i in 0..n {
        let (s, o1) = g(a, i).overflowing_add(g(b, i));
        let (_, o2) = s.overflowing_add(c);
        c = (o1 || o2) as u64;
        if c == 1 && i + 1 < n {
            return true;
        }
        let (d, o1) = g(a, i).overflowing_sub(g(b, i));
        let (_, o2) = d.overflowing_sub(br);
        br = (o1 || o2) as u64;
        let (d, o1) = g(b, i).overflowing_sub(g(a, i));
        let (_, o2) = d.overflowing_sub(br2);
        br2 = (o1 || o2) as u64;
        if i + 1 < n && (br == 1 && br2 == 1) {
            // at least one direction is the valid (non-underflowing) one; borrow in both => crossing
            return true;
        }
    }
    c == 1
}

fn check_i(sa: bool, a: &[u64], sb: bool, b: &[u64]) -> Verdict {
    let x = bi(sa, a);
    let y = bi(sb, b);
    let ra = ri(sa, a);
    let rb = ri(sb, b);
    let sum = ra.add(&rb);
    for (p, q, tag) in [(&x, &y, "a+b"), (&y, &x, "b+a")] {
        ctx(must_return("&p + &q", || p + q).and_then(|r| eq_bi(&r, &sum)), &format!("BigInt {} (ref+ref)", tag))?;
        ctx(must_return("p + &q", || p.clone() + q).and_then(|r| eq_bi(&r, &sum)), &format!("BigInt {} (val+ref)", tag))?;
        ctx(must_return("&p + q", || p + q.clone()).and_then(|r| eq_bi(&r, &sum)), &format!("BigInt {} (ref+val)", tag))?;
        ctx(must_return("p + q", || p.clone() + q.clone()).and_then(|r| eq_bi(&r, &sum)), &format!("BigInt {} (val+val)", tag))?;
        ctx(must_return("p += &q", || { let mut t = p.clone(); t += q; t }).and_then(|r| eq_bi(&r, &sum)), &format!("BigInt {} (+= ref)", tag))?;
        ctx(must_return("p += q", || { let mut t = p.clone(); t += q.clone(); t }).and_then(|r| eq_bi(&r, &sum)), &format!("BigInt {} (+= val)", tag))?;
        match must_return("checked_add", || p.checked_add(q))? {
            Some(r) => ctx(eq_bi(&r, &sum), &format!("BigInt {} checked_add", tag))?,
            None => return Err(format!("BigInt {} checked_add returned None", tag)),
        }
        match must_return("CheckedAdd::checked_add", || CheckedAdd::checked_add(p, q))? {
            Some(r) => ctx(eq_bi(&r, &sum), &format!("BigInt {} <BigInt as CheckedAdd>::checked_add", tag))?,
            None => return Err(format!("BigInt {} <BigInt as CheckedAdd>::checked_add returned None", tag)),
        }
    }
    for (p, q, rp, rq, tag) in [(&x, &y, &ra, &rb, "a-b"), (&y, &x, &rb, &ra, "b-a")] {
        let d = rp.sub(rq);
        ctx(must_return("&p - &q", || p - q).and_then(|r| eq_bi(&r, &d)), &format!("BigInt {} (ref-ref)", tag))?;
        ctx(must_return("p - &q", || p.clone() - q).and_then(|r| eq_bi(&r, &d)), &format!("BigInt {} (val-ref)", tag))?;
        ctx(must_return("&p - q", || p - q.clone()).and_then(|r| eq_bi(&r, &d)), &format!("BigInt {} (ref-val)", tag))?;
        ctx(must_return("p - q", || p.clone() - q.clone()).and_then(|r| eq_bi(&r, &d)), &format!("BigInt {} (val-val)", tag))?;
        ctx(must_return("p -= &q", || { let mut t = p.clone(); t -= q; t }).and_then(|r| eq_bi(&r, &d)), &format!("BigInt {} (-= ref)", tag))?;
        ctx(must_return("p -= q", || { let mut t = p.clone(); t -= q.clone(); t }).and_then(|r| eq_bi(&r, &d)), &format!("BigInt {} (-= val)", tag))?;
        match must_return("checked_sub", || p.checked_sub(q))? {
            Some(r) => ctx(eq_bi(&r, &d), &format!("BigInt {} checked_sub", tag))?,
            None => return Err(format!("BigInt {} checked_sub returned None", tag)),
        }
        match must_return("CheckedSub::checked_sub", || CheckedSub::checked_sub(p, q))? {
            Some(r) => ctx(eq_bi(&r, &d), &format!("BigInt {} <BigInt as CheckedSub>::checked_sub", tag))?,
            None => return Err(format!("BigInt {} <BigInt as CheckedSub>::checked_sub returned None", tag)),
        }
    }
    eq_bi(&x, &ra).map_err(|e| format!("borrowed operand a changed: {}", e))?;
    eq_bi(&y, &rb).map_err(|e| format!("borrowed operand b changed: {}", e))?;
    let (la, lb) = (gen::trim(a.to_vec()).len(), gen::trim(b.to_vec()).len());
    let minl = la.min(lb);
    let crossing = carry_crosses(a, b);
    let sc = match (ra.signum(), rb.signum()) {
        (1, 1) => "sign(+,+)",
        (1, -1) => "sign(+,-)",
        (-1, 1) => "sign(-,+)",
        (-1, -1) => "sign(-,-)",
        _ => "sign(with zero)",
    };
    Ok(Info::new(la > 0 && lb > 0 && (minl >= 5 || crossing))
        .class("bigint")
        .class(sc)
        .class_if(minl >= 5, "asm_block_len")
        .class_if(crossing, "carry_or_borrow_crosses_digit")
        .class_if(ra.mag == rb.mag && la > 0, "equal_magnitudes"))
}

/// scalar forms: big +- primitive and primitive +- big, every type that can hold the scalar
fn check_scalar(sa: bool, a: &[u64], s: i128) -> Verdict {
    use crate::refint::RefInt;
    let x = bi(sa, a);
    let u = bu(a);
    let ra = ri(sa, a);
    let rs = RefInt::from_i128(s);
    let (sum, d1, d2) = (ra.add(&rs), ra.sub(&rs), rs.sub(&ra));
    macro_rules! iforms {
        ($($T:ty),*) => {$(
            if let Ok(v) = <$T>::try_from(s) {
                let tn = stringify!($T);
                ctx(must_return("a + s", || &x + v).and_then(|r| eq_bi(&r, &sum)), &format!("&BigInt + {}", tn))?;
                ctx(must_return("a + s", || x.clone() + v).and_then(|r| eq_bi(&r, &sum)), &format!("BigInt + {}", tn))?;
                ctx(must_return("s + a", || v + &x).and_then(|r| eq_bi(&r, &sum)), &format!("{} + &BigInt", tn))?;
                ctx(must_return("s + a", || v + x.clone()).and_then(|r| eq_bi(&r, &sum)), &format!("{} + BigInt", tn))?;
                ctx(must_return("a += s", || { let mut t = x.clone(); t += v; t }).and_then(|r| eq_bi(&r, &sum)), &format!("BigInt += {}", tn))?;
                ctx(must_return("a - s", || &x - v).and_then(|r| eq_bi(&r, &d1)), &format!("&BigInt - {}", tn))?;
                ctx(must_return("a - s", || x.clone() - v).and_then(|r| eq_bi(&r, &d1)), &format!("BigInt - {}", tn))?;
                ctx(must_return("s - a", || v - &x).and_then(|r| eq_bi(&r, &d2)), &format!("{} - &BigInt", tn))?;
                ctx(must_return("s - a", || v - x.clone()).and_then(|r| eq_bi(&r, &d2)), &format!("{} - BigInt", tn))?;
                ctx(must_return("a -= s", || { let mut t = x.clone(); t -= v; t }).and_then(|r| eq_bi(&r, &d1)), &format!("BigInt -= {}", tn))?;
            }
        )*};
    }
    iforms!(i8, i16, i32, i64, isize, i128, u8, u16, u32, u64, usize, u128);
    let mut underflow = false;
    if s >= 0 {
        let usum = ra.mag.add(&rs.mag);
        let ord = ra.mag.cmp(&rs.mag);
        underflow = ord != Ordering::Equal;
        macro_rules! uforms {
            ($($T:ty),*) => {$(
                if let Ok(v) = <$T>::try_from(s) {
                    let tn = stringify!($T);
                    ctx(must_return("a + s", || &u + v).and_then(|r| eq_bu(&r, &usum)), &format!("&BigUint + {}", tn))?;
                    ctx(must_return("a + s", || u.clone() + v).and_then(|r| eq_bu(&r, &usum)), &format!("BigUint + {}", tn))?;
                    ctx(must_return("s + a", || v + &u).and_then(|r| eq_bu(&r, &usum)), &format!("{} + &BigUint", tn))?;
                    ctx(must_return("s + a", || v + u.clone()).and_then(|r| eq_bu(&r, &usum)), &format!("{} + BigUint", tn))?;
                    ctx(must_return("a += s", || { let mut t = u.clone(); t += v; t }).and_then(|r| eq_bu(&r, &usum)), &format!("BigUint += {}", tn))?;
                    if ord != Ordering::Less {
                        let d = ra.mag.sub(&rs.mag);
                        ctx(must_return("a - s", || &u - v).and_then(|r| eq_bu(&r, &d)), &format!("&BigUint - {}", tn))?;
                        ctx(must_return("a - s", || u.clone() - v).and_then(|r| eq_bu(&r, &d)), &format!("BigUint - {}", tn))?;
                        ctx(must_return("a -= s", || { let mut t = u.clone(); t -= v; t }).and_then(|r| eq_bu(&r, &d)), &format!("BigUint -= {}", tn))?;
                    } else {
                        ctx(must_panic("a - s", || &u - v), &format!("&BigUint - larger {}", tn))?;
                        ctx(must_panic("a - s", || u.clone() - v), &format!("BigUint - larger {}", tn))?;
                        ctx(must_panic("a -= s", || { let mut t = u.clone(); t -= v; t }), &format!("BigUint -= larger {}", tn))?;
                    }
                    if ord != Ordering::Greater {
                        let d = rs.mag.sub(&ra.mag);
                        ctx(must_return("s - a", || v - &u).and_then(|r| eq_bu(&r, &d)), &format!("{} - &BigUint", tn))?;
                        ctx(must_return("s - a", || v - u.clone()).and_then(|r| eq_bu(&r, &d)), &format!("{} - BigUint", tn))?;
                    } else {
                        ctx(must_panic("s - a", || v - &u), &format!("{} - larger &BigUint", tn))?;
                        ctx(must_panic("s - a", || v - u.clone()), &format!("{} - larger BigUint", tn))?;
                    }
                }
            )*};
        }
        uforms!(u8, u16, u32, u64, usize, u128);
    }
    // u128 scalars with the top bit set (not representable as i128): reinterpret a negative scalar's bits
    if s < 0 {
        let v = s as u128;
        let rv = crate::refint::Nat::from_u128(v);
        let usum = ra.mag.add(&rv);
        ctx(must_return("a + s", || &u + v).and_then(|r| eq_bu(&r, &usum)), "&BigUint + u128 (>= 2^127)")?;
        ctx(must_return("s + a", || v + &u).and_then(|r| eq_bu(&r, &usum)), "u128 (>= 2^127) + &BigUint")?;
        ctx(must_return("a += s", || { let mut t = u.clone(); t += v; t }).and_then(|r| eq_bu(&r, &usum)), "BigUint += u128 (>= 2^127)")?;
        match ra.mag.cmp(&rv) {
            Ordering::Less => {
                ctx(must_panic("a - s", || &u - v), "&BigUint - larger u128 (>= 2^127)")?;
                ctx(must_return("s - a", || v - &u).and_then(|r| eq_bu(&r, &rv.sub(&ra.mag))), "u128 (>= 2^127) - &BigUint")?;
            }
            _ => {
                ctx(must_return("a - s", || &u - v).and_then(|r| eq_bu(&r, &ra.mag.sub(&rv))), "&BigUint - u128 (>= 2^127)")?;
                ctx(must_return("a -= s", || { let mut t = u.clone(); t -= v; t }).and_then(|r| eq_bu(&r, &ra.mag.sub(&rv))), "BigUint -= u128 (>= 2^127)")?;
                if ra.mag != rv {
                    ctx(must_panic("s - a", || v - &u), "u128 (>= 2^127) - larger &BigUint")?;
                }
            }
        }
        let wi = ra.add(&RefInt::from_nat(rv.clone()));
        ctx(must_return("a + s", || &x + v).and_then(|r| eq_bi(&r, &wi)), "&BigInt + u128 (>= 2^127)")?;
        ctx(must_return("a - s", || &x - v).and_then(|r| eq_bi(&r, &ra.sub(&RefInt::from_nat(rv.clone())))), "&BigInt - u128 (>= 2^127)")?;
        ctx(must_return("s - a", || v - &x).and_then(|r| eq_bi(&r, &RefInt::from_nat(rv.clone()).sub(&ra))), "u128 (>= 2^127) - &BigInt")?;
    }
    Ok(Info::new(!ra.is_zero() && s != 0 && (a.len() >= 2 || s.unsigned_abs() > u64::MAX as u128))
        .class("scalar_forms")
        .class_if(underflow, "biguint_underflow")
        .class_if(s.unsigned_abs() > u64::MAX as u128, "scalar_two_digits")
        .class_if(ra.is_zero(), "big_operand_zero"))
}

impl Property for C01 {
    fn id(&self) -> &'static str {
        "C01"
    }
    fn rule(&self) -> &'static str {
        "Cases are operand pairs (BigUint: addsub.u a b; BigInt: addsub.i a b with all sign pairs) drawn from a mixture of special-digit operands, lengths on the 5-digit asm block grid (0..6, 5k-1, 5k, 5k+1), all-ones carry chains with one interrupting digit at a swept position, chains that die exactly at digit j, borrow ripples from B^k, nearly equal operands and a=b+delta; each case runs 7 add forms and 7 sub forms in both operand orders against RefInt (BigUint underflow must panic / checked_sub None); addsub.s runs big +- primitive and primitive +- big in val/ref and op-assign forms for every primitive type that can hold the scalar (incl. the |big| = |scalar| +- 2 underflow edge). Non-trivial: both operands non-zero and (shorter operand >= 5 digits, so the asm block runs, or a carry/borrow crosses a digit boundary in the model)."
    }
    fn strategy(&self, tier: Tier) -> BoxedStrategy<Case> {
        let ml = 40;
        let small_u = gen::addsub_pair(ml).prop_map(|(a, b)| Case::new("addsub.u", vec![Arg::N(a), Arg::N(b)]));
        let small_i = (any::<bool>(), any::<bool>(), gen::addsub_pair(ml))
            .prop_map(|(sa, sb, (a, b))| Case::new("addsub.i", vec![Arg::Z(sa, a), Arg::Z(sb, b)]));
        let scal = (any::<bool>(), prop_oneof![35 => gen::nat(3), 15 => gen::nat(0), 20 => (0usize..=40).prop_map(|k| vec![u64::MAX; k]), 15 => gen::nat(40), 15 => (1usize..=40).prop_map(|k| { let mut v = vec![0u64; k]; v.push(1); v })], gen::scalar_i128())
            .prop_map(|(sa, a, s)| Case::new("addsub.s", vec![Arg::Z(sa, a), Arg::I(s)]));
        // |big| = |scalar| + d: the underflow edge of the scalar forms
        let scal_edge = (any::<bool>(), gen::scalar_i128(), -2i128..=2).prop_map(|(sa, s, d)| {
            let m = crate::refint::RefInt::from_u128(s.unsigned_abs()).add(&crate::refint::RefInt::from_i128(d));
            Case::new("addsub.s", vec![Arg::Z(sa, if m.neg { vec![] } else { m.mag.to_u64_digits() }), Arg::I(s)])
        });
        let small_u = prop_oneof![85 => small_u, 10 => scal, 5 => scal_edge];
        match tier {
            Tier::Quick => prop_oneof![50 => small_u, 50 => small_i].boxed(),
            Tier::Thorough => {
                let big_u = gen::addsub_pair_big(5000).prop_map(|(a, b)| Case::new("addsub.u", vec![Arg::N(a), Arg::N(b)]));
                let big_i = (any::<bool>(), any::<bool>(), gen::addsub_pair_big(5000))
                    .prop_map(|(sa, sb, (a, b))| Case::new("addsub.i", vec![Arg::Z(sa, a), Arg::Z(sb, b)]));
                prop_oneof![45 => small_u, 45 => small_i, 5 => big_u, 5 => big_i].boxed()
            }
        }
    }
    fn check(&self, c: &Case) -> Verdict {
        match c.op.as_str() {
            "addsub.u" => check_u(c.n(0), c.n(1)),
            "addsub.i" => {
                let (sa, a) = c.z(0);
                let (sb, b) = c.z(1);
                check_i(sa, a, sb, b)
            }
            "addsub.s" => {
                let (sa, a) = c.z(0);
                check_scalar(sa, a, c.i(1))
            }
            o => Err(format!("unknown op {}", o)),
        }
    }
    fn budget(&self, tier: Tier) -> Budget {
        match tier {
            Tier::Quick => Budget { release: 1_200_000, dbg: 400_000, workers: 8 },
            Tier::Thorough => Budget { release: 64_000_000, dbg: 16_000_000, workers: 16 },
        }
    }
    fn probes(&self) -> Vec<Probe> {
        use Probe::*;
        vec![
            ADD_ASM_BLOCK, ADD_ASM_CARRY_OUT, ADD_TAIL_WITH_CARRY, ADD_PROPAGATE_HI, ADD_GROW, ADD_SELF_SHORTER,
            SUB_ASM_BLOCK, SUB_ASM_BORROW_OUT, SUB_TAIL_WITH_BORROW, SUB_PROPAGATE_HI, SUB_REV_LONGER,
            SUB_REV_LONGER_BORROW, SUB_REV_SAME,
        ]
    }
    fn assumptions(&self) -> Vec<String> {
        vec![
            "RefInt (u32-limb schoolbook arithmetic, cross-checked against CPython by tools/oracle_check.py) is correct".into(),
            "operand lengths up to 40 digits (quick) / 5000 digits (thorough)".into(),
        ]
    }
}

#[allow(dead_code)]
fn _unused(_: &BigInt, _: &BigUint) {}
