use crate::engine::Property;

pub mod c01;
pub mod c02;
pub mod c03;
pub mod c04;
pub mod c05;
pub mod c06;
pub mod fmt_table;
pub mod c07;
pub mod c08;
pub mod c09;
pub mod c10;
pub mod c11;
pub mod c12;
pub mod c13;
pub mod c14;
pub mod c15;
pub mod c19;
pub mod c20;
pub mod c16;
pub mod c17;
pub mod c18;

pub fn all() -> Vec<Box<dyn Property>> {
    vec![Box::new(c01::C01), Box::new(c02::C02), Box::new(c03::C03), Box::new(c04::C04), Box::new(c05::C05), Box::new(c06::C06), Box::new(c07::C07), Box::new(c08::C08), Box::new(c09::C09), Box::new(c10::C10), Box::new(c11::C11), Box::new(c12::C12), Box::new(c13::C13), Box::new(c14::C14), Box::new(c15::C15), Box::new(c16::C16), Box::new(c17::C17), Box::new(c18::C18), Box::new(c19::C19), Box::new(c20::C20)]
}

pub fn by_id(id: &str) -> Option<Box<dyn Property>> {
    all().into_iter().find(|p| p.id() == id)
}

/// which property's oracle owns an operation name (used by the C14 router and the fuzz target)
pub fn owner_of_op(op: &str) -> Option<Box<dyn Property>> {
    let id = match op {
        "addsub.u" | "addsub.i" | "addsub.s" => "C01",
        "mul.u" | "mul.i" | "mul.s" => "C02",
        "div.u" | "div.i" | "div.us" | "div.is" | "div.big" => "C03",
        "hist" | "ctor" => "C04",
        "modpow.u" | "modpow.i" | "modinv.u" | "modinv.i" => "C05",
        "tostr" | "toradix" | "parse" | "fromradix" | "fmt" => "C06",
        "bitop.i" | "bitop.u" | "shift.i" | "shift.u" | "bit" => "C07",
        "toprim.u" | "toprim.i" | "fromprim.i" | "fromprim.u" | "tofloat" | "fromf64" | "fromf32" => "C08",
        "export.u" | "export.i" | "import.bytes" | "import.words" | "iter" => "C09",
        "bigbig" | "scalar" | "scalar.u" | "shiftpow" | "sumprod" => "C10",
        "root" => "C11",
        "pow" => "C12",
        "gcd.i" | "gcd.u" => "C13",
        "failset" => "C14",
        "bits" | "range" | "chacha" => "C18",
        "value" | "pair" | "abs_sub" | "tables" => "C19",
        "ser" | "de" => "C17",
        _ => return None,
    };
    by_id(id)
}
