use crate::engine::Property;

pub mod c01;

pub fn all() -> Vec<Box<dyn Property>> {
    vec![Box::new(c01::C01)]
}

pub fn by_id(id: &str) -> Option<Box<dyn Property>> {
    all().into_iter().find(|p| p.id() == id)
}
