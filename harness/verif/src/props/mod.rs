use crate::engine::Property;

pub mod c01;
pub mod c03;

pub fn all() -> Vec<Box<dyn Property>> {
    vec![Box::new(c01::C01), Box::new(c03::C03)]
}

pub fn by_id(id: &str) -> Option<Box<dyn Property>> {
    all().into_iter().find(|p| p.id() == id)
}
