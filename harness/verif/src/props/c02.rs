//! C02 — multiplication is exact in every algorithm regime and at every size boundary.
use crate::engine::*;
use crate::gen::{self, MAX};
use crate::lib_util::*;
use crate::refint::{fingerprint_u64_digits, Nat, RefInt, FP_PRIMES};
use nbcase::{Arg, Case};
use num_bigint::verif_probe::Probe;
use num_bigint::{BigInt, BigUint, Sign};
use num_traits::CheckedMul;
use proptest::collection::vec;
use proptest::prelude::*;
use proptest::sample::select;

pub struct C02;

pub const EXACT_LIMIT: usize = 600;

/// product oracle: exact schoolbook when the shorter operand has <= 600 digits, always the three
/// modular fingerprints
pub struct Product {
    exact: Option<Nat>,
    fp: [u64; 3],
}

pub fn product_oracle(a: &[u64], b: &[u64]) -> Product {
    let a = gen::trim(a.to_vec());
    let b = gen::trim(b.to_vec());
    let mut fp = [0u64; 3];
    for (i, p) in FP_PRIMES.iter().enumerate() {
        let fa = fingerprint_u64_digits(&a, *p) as u128;
        let fb = fingerprint_u64_digits(&b, *p) as u128;
        fp[i] = ((fa * fb) % *p as u128) as u64;
    }
    let exact = if a.len().min(b.len()) <= EXACT_LIMIT && a.len() + b.len() <= 4 * EXACT_LIMIT {
        Some(rn(&a).mul(&rn(&b)))
    } else {
        None
    };
    Product { exact, fp }
}

impl Product {
    pub fn check_digits(&self, d: &[u64]) -> Result<(), String> {
        if d.last() == Some(&0) {
            return Err("product is not canonical: digits end in a zero digit".into());
        }
        if let Some(e) = &self.exact {
            if e.to_u64_digits() != d {
                let got = Nat::from_u64_digits(d);
                return Err(format!(
                    "wrong product ({} digits, expected {}): got 0x{} want 0x{}",
                    d.len(),
                    e.to_u64_digits().len(),
                    trunc(&got.to_string_radix(16, false), 160),
                    trunc(&e.to_string_radix(16, false), 160)
                ));
            }
        }
        for (i, p) in FP_PRIMES.iter().enumerate() {
            if fingerprint_u64_digits(d, *p) != self.fp[i] {
                return Err(format!("wrong product: residue modulo the 61-bit prime {} differs from (a mod p)*(b mod p)", p));
            }
        }
        Ok(())
    }
    pub fn check_u(&self, v: &BigUint) -> Result<(), String> {
        self.check_digits(&v.to_u64_digits())
    }
    pub fn check_i(&self, v: &BigInt, want_neg: bool) -> Result<(), String> {
        let (s, d) = v.to_u64_digits();
        self.check_digits(&d)?;
        let want = if d.is_empty() {
            Sign::NoSign
        } else if want_neg {
            Sign::Minus
        } else {
            Sign::Plus
        };
        if s != want {
            return Err(format!("wrong sign of product: got {:?} want {:?}", s, want));
        }
        Ok(())
    }
}

fn regime(la: usize, lb: usize) -> &'static str {
    let (x, y) = if la < lb { (la, lb) } else { (lb, la) };
    if x == 0 {
        "zero"
    } else if x == 1 {
        "single_digit"
    } else if x <= 32 {
        "long"
    } else if x * 2 <= y {
        "half_karatsuba"
    } else if x <= 256 {
        "karatsuba"
    } else {
        "toom3"
    }
}

fn check_u(a: &[u64], b: &[u64]) -> Verdict {
    let x = bu(a);
    let y = bu(b);
    let pr = product_oracle(a, b);
    ctx(must_return("&a * &b", || &x * &y).and_then(|r| pr.check_u(&r)), "BigUint &a * &b")?;
    ctx(must_return("&b * &a", || &y * &x).and_then(|r| pr.check_u(&r)), "BigUint &b * &a")?;
    ctx(must_return("a * b", || x.clone() * y.clone()).and_then(|r| pr.check_u(&r)), "BigUint a * b")?;
    ctx(must_return("a * &b", || x.clone() * &y).and_then(|r| pr.check_u(&r)), "BigUint a * &b")?;
    ctx(must_return("&a * b", || &x * y.clone()).and_then(|r| pr.check_u(&r)), "BigUint &a * b")?;
    ctx(must_return("a *= &b", || { let mut t = x.clone(); t *= &y; t }).and_then(|r| pr.check_u(&r)), "BigUint a *= &b")?;
    ctx(must_return("a *= b", || { let mut t = x.clone(); t *= y.clone(); t }).and_then(|r| pr.check_u(&r)), "BigUint a *= b")?;
    ctx(must_return("b *= &a", || { let mut t = y.clone(); t *= &x; t }).and_then(|r| pr.check_u(&r)), "BigUint b *= &a")?;
    match must_return("checked_mul", || x.checked_mul(&y))? {
        Some(r) => ctx(pr.check_u(&r), "BigUint checked_mul")?,
        None => return Err("BigUint checked_mul returned None".into()),
    }
    let (la, lb) = (gen::trim(a.to_vec()).len(), gen::trim(b.to_vec()).len());
    let lowz = a.first() == Some(&0) || b.first() == Some(&0);
    Ok(Info::new(la >= 2 && lb >= 2)
        .class("biguint")
        .class(regime(la, lb))
        .class_if(lowz, "low_zero_digits")
        .class_if(a == b && la >= 2, "square")
        .class_if(pr.exact.is_none(), "fingerprint_only"))
}

fn check_i(sa: bool, a: &[u64], sb: bool, b: &[u64]) -> Verdict {
    let x = bi(sa, a);
    let y = bi(sb, b);
    let pr = product_oracle(a, b);
    let neg = sa != sb;
    ctx(must_return("&a * &b", || &x * &y).and_then(|r| pr.check_i(&r, neg)), "BigInt &a * &b")?;
    ctx(must_return("&b * &a", || &y * &x).and_then(|r| pr.check_i(&r, neg)), "BigInt &b * &a")?;
    ctx(must_return("a * b", || x.clone() * y.clone()).and_then(|r| pr.check_i(&r, neg)), "BigInt a * b")?;
    ctx(must_return("a * &b", || x.clone() * &y).and_then(|r| pr.check_i(&r, neg)), "BigInt a * &b")?;
    ctx(must_return("&a * b", || &x * y.clone()).and_then(|r| pr.check_i(&r, neg)), "BigInt &a * b")?;
    ctx(must_return("a *= &b", || { let mut t = x.clone(); t *= &y; t }).and_then(|r| pr.check_i(&r, neg)), "BigInt a *= &b")?;
    ctx(must_return("a *= b", || { let mut t = x.clone(); t *= y.clone(); t }).and_then(|r| pr.check_i(&r, neg)), "BigInt a *= b")?;
    ctx(must_return("b *= &a", || { let mut t = y.clone(); t *= &x; t }).and_then(|r| pr.check_i(&r, neg)), "BigInt b *= &a")?;
    match must_return("checked_mul", || x.checked_mul(&y))? {
        Some(r) => ctx(pr.check_i(&r, neg), "BigInt checked_mul")?,
        None => return Err("BigInt checked_mul returned None".into()),
    }
    match must_return("CheckedMul::checked_mul", || CheckedMul::checked_mul(&x, &y))? {
        Some(r) => ctx(pr.check_i(&r, neg), "<BigInt as CheckedMul>::checked_mul")?,
        None => return Err("<BigInt as CheckedMul>::checked_mul returned None".into()),
    }
    let (la, lb) = (gen::trim(a.to_vec()).len(), gen::trim(b.to_vec()).len());
    let sc = match (la > 0 && sa, lb > 0 && sb) {
        (false, false) => "sign(+,+)",
        (false, true) => "sign(+,-)",
        (true, false) => "sign(-,+)",
        (true, true) => "sign(-,-)",
    };
    Ok(Info::new(la >= 2 && lb >= 2).class("bigint").class(regime(la, lb)).class(sc))
}

fn check_scalar(sa: bool, a: &[u64], s: i128) -> Verdict {
    let x = bi(sa, a);
    let u = bu(a);
    let ra = ri(sa, a);
    let rs = RefInt::from_i128(s);
    let want = ra.mul(&rs);
    macro_rules! iforms {
        ($($T:ty),*) => {$(
            if let Ok(v) = <$T>::try_from(s) {
                ctx(must_return("a * s", || &x * v).and_then(|r| eq_bi(&r, &want)), concat!("&BigInt * ", stringify!($T)))?;
                ctx(must_return("a * s", || x.clone() * v).and_then(|r| eq_bi(&r, &want)), concat!("BigInt * ", stringify!($T)))?;
                ctx(must_return("s * a", || v * &x).and_then(|r| eq_bi(&r, &want)), concat!(stringify!($T), " * &BigInt"))?;
                ctx(must_return("s * a", || v * x.clone()).and_then(|r| eq_bi(&r, &want)), concat!(stringify!($T), " * BigInt"))?;
                ctx(must_return("a *= s", || { let mut t = x.clone(); t *= v; t }).and_then(|r| eq_bi(&r, &want)), concat!("BigInt *= ", stringify!($T)))?;
            }
        )*};
    }
    iforms!(i8, i16, i32, i64, isize, i128, u8, u16, u32, u64, usize, u128);
    if s >= 0 {
        let wantu = ra.mag.mul(&rs.mag);
        macro_rules! uforms {
            ($($T:ty),*) => {$(
                if let Ok(v) = <$T>::try_from(s) {
                    ctx(must_return("a * s", || &u * v).and_then(|r| eq_bu(&r, &wantu)), concat!("&BigUint * ", stringify!($T)))?;
                    ctx(must_return("a * s", || u.clone() * v).and_then(|r| eq_bu(&r, &wantu)), concat!("BigUint * ", stringify!($T)))?;
                    ctx(must_return("s * a", || v * &u).and_then(|r| eq_bu(&r, &wantu)), concat!(stringify!($T), " * &BigUint"))?;
                    ctx(must_return("s * a", || v * u.clone()).and_then(|r| eq_bu(&r, &wantu)), concat!(stringify!($T), " * BigUint"))?;
                    ctx(must_return("a *= s", || { let mut t = u.clone(); t *= v; t }).and_then(|r| eq_bu(&r, &wantu)), concat!("BigUint *= ", stringify!($T)))?;
                }
            )*};
        }
        uforms!(u8, u16, u32, u64, usize, u128);
    }
    // u128 scalars with the top bit set (not representable as i128): reinterpret a negative scalar's bits
    if s < 0 {
        let v = s as u128;
        let wantu = ra.mag.mul(&crate::refint::Nat::from_u128(v));
        let wanti = RefInt::new(ra.neg, wantu.clone());
        ctx(must_return("a * s", || &u * v).and_then(|r| eq_bu(&r, &wantu)), "&BigUint * u128 (>= 2^127)")?;
        ctx(must_return("s * a", || v * &u).and_then(|r| eq_bu(&r, &wantu)), "u128 (>= 2^127) * &BigUint")?;
        ctx(must_return("a *= s", || { let mut t = u.clone(); t *= v; t }).and_then(|r| eq_bu(&r, &wantu)), "BigUint *= u128 (>= 2^127)")?;
        ctx(must_return("a * s", || &x * v).and_then(|r| eq_bi(&r, &wanti)), "&BigInt * u128 (>= 2^127)")?;
        ctx(must_return("a *= s", || { let mut t = x.clone(); t *= v; t }).and_then(|r| eq_bi(&r, &wanti)), "BigInt *= u128 (>= 2^127)")?;
    }
    let m = s.unsigned_abs();
    Ok(Info::new(!ra.is_zero() && m >= 2)
        .class("scalar_forms")
        .class_if(m.is_power_of_two(), "power_of_two_scalar")
        .class_if(m > u64::MAX as u128, "two_digit_scalar")
        .class_if(s < 0, "negative_scalar"))
}

const SHORT_SMALL: [usize; 12] = [1, 2, 3, 4, 8, 16, 30, 31, 32, 33, 34, 40];
const SHORT_KARA: [usize; 14] = [33, 34, 35, 48, 63, 64, 65, 66, 127, 128, 129, 200, 255, 256];
const SHORT_TOOM: [usize; 10] = [257, 258, 259, 260, 300, 383, 384, 385, 512, 513];

/// (shorter length, relation, residue) -> longer length
fn longer(x: usize, rel: u8, extra: usize) -> usize {
    match rel % 9 {
        0 => x + extra,                 // < 2x (equal .. +5)
        1 => 2 * x - 1 - extra.min(x - 1).min(3), // just below 2x
        2 => 2 * x,                     // = 2x
        3 => 2 * x + 1 + extra,         // > 2x
        4 => 3 * x + extra,
        5 => x,                         // equal
        // strongly unbalanced: nested half-splits, half-Karatsuba feeding Karatsuba/Toom-3 at odd offsets
        6 => 4 * x + extra,
        7 => 8 * x + 2 * extra + 1,
        _ => 15 * x + extra,
    }
}

fn sized_pair(shorts: &'static [usize], cap: usize) -> BoxedStrategy<(Vec<u64>, Vec<u64>)> {
    (select(shorts.to_vec()), 0u8..9, 0usize..6, any::<u8>(), any::<u64>(), any::<u8>(), any::<u64>(), any::<bool>())
        .prop_map(move |(x, rel, extra, ka, sa, kb, sb, swap)| {
            let y = longer(x, rel, extra).min(cap.max(x));
            let a = fix_top(gen::expand(ka, sa, x));
            let b = fix_top(gen::expand(kb, sb, y));
            if swap {
                (b, a)
            } else {
                (a, b)
            }
        })
        .boxed()
}

fn fix_top(mut v: Vec<u64>) -> Vec<u64> {
    if let Some(t) = v.last_mut() {
        if *t == 0 {
            *t = 1;
        }
    }
    v
}

/// operands whose halves are ordered to force each sign of the Karatsuba middle term
fn kara_sign_pair() -> BoxedStrategy<(Vec<u64>, Vec<u64>)> {
    (17usize..=128, 0u8..5, any::<u64>(), any::<u8>(), 0usize..3)
        .prop_map(|(h, case, seed, kind, odd)| {
            let mk = |s: u64, top: u64| {
                let mut v = gen::expand(kind, seed ^ s, h);
                v[h - 1] = top;
                v
            };
            let (x0, x1, y0, y1) = match case {
                0 => (mk(1, 5), mk(2, MAX), mk(3, 5), mk(4, MAX)),   // x1>x0, y1>y0  -> Plus
                1 => (mk(1, MAX), mk(2, 5), mk(3, 5), mk(4, MAX)),   // x1<x0, y1>y0  -> Minus
                2 => (mk(1, 5), mk(2, MAX), mk(3, MAX), mk(4, 5)),   // Minus
                3 => (mk(1, MAX), mk(2, 5), mk(3, MAX), mk(4, 5)),   // both negative -> Plus
                _ => { let x = mk(1, 7); (x.clone(), x, mk(3, 9), mk(4, MAX)) } // x1 == x0 -> NoSign
            };
            let mut x = x0;
            x.extend(x1);
            let mut y = y0;
            y.extend(y1);
            // odd lengths: extra high digits on y
            for _ in 0..odd {
                y.push(3);
            }
            (x, y)
        })
        .boxed()
}

/// operands whose thirds are sized to make Toom-3's evaluation points negative (x2 - x1 + x0 < 0, the
/// w(-2) factors negative), zero, or to leave the top third short / the middle third empty
fn toom_sign_pair() -> BoxedStrategy<(Vec<u64>, Vec<u64>)> {
    (86usize..=200, 0u8..6, 0u8..6, any::<u64>(), any::<u8>(), 0usize..3)
        .prop_map(|(third, cx, cy, seed, kind, short_top)| {
            // thirds: small = a few low digits set, big = all digits from the expansion with a MAX top digit
            let part = |s: u64, big: bool, len: usize| {
                let mut v = gen::expand(kind, seed ^ s, len);
                if big {
                    if let Some(t) = v.last_mut() { *t = MAX; }
                } else {
                    for d in v.iter_mut().skip(1) { *d = 0; }
                }
                v
            };
            let build = |c: u8, s: u64, top_len: usize| {
                // (x0, x1, x2) magnitudes: which parts are big decides the signs of x2 - x1 + x0 and 4x2 - 2x1 + x0
                let (b0, b1, b2) = match c { 0 => (false, true, false), 1 => (true, false, true), 2 => (false, true, true), 3 => (true, true, false), 4 => (false, false, true), _ => (true, true, true) };
                let mut v = part(s, b0, third);
                v.extend(part(s + 1, b1, third));
                let mut top = part(s + 2, b2, top_len.max(1));
                if *top.last().unwrap() == 0 { *top.last_mut().unwrap() = 1; }
                v.extend(top);
                v
            };
            // y decides the split size i = y.len()/3 + 1; x may have a short or (nearly) empty top third
            let y = build(cy, 100, third);
            let x = build(cx, 200, [third, third / 3, 1][short_top]);
            (x, y)
        })
        .boxed()
}

fn with_low_zeros(p: BoxedStrategy<(Vec<u64>, Vec<u64>)>) -> BoxedStrategy<(Vec<u64>, Vec<u64>)> {
    (p, 0usize..40, 0usize..40, any::<bool>(), any::<bool>())
        .prop_map(|((a, b), za, zb, da, db)| {
            let pad = |v: Vec<u64>, z: usize, on: bool| {
                if !on || v.is_empty() {
                    return v;
                }
                let mut o = vec![0u64; z];
                o.extend(v);
                o
            };
            (pad(a, za, da), pad(b, zb, db))
        })
        .boxed()
}

pub fn mul_pair(tier: Tier) -> BoxedStrategy<(Vec<u64>, Vec<u64>)> {
    let small = prop_oneof![
        40 => (gen::nat(8), gen::nat(8)),
        20 => (gen::nat(40), gen::nat(40)),
        20 => sized_pair(&SHORT_SMALL, 130),
        10 => (1usize..=40).prop_map(|k| (vec![MAX; k], vec![MAX; k])),
        10 => (vec(gen::digit(), 1..=34), any::<u16>()).prop_map(|(mut v, i)| { let n = v.len(); let p = gen::idx(i, n); for x in v.iter_mut().skip(p) { *x = 0; } v.push(1); (v.clone(), v) }),
    ];
    let kara = prop_oneof![
        35 => sized_pair(&SHORT_KARA, 800),
        10 => sized_pair(&SHORT_KARA, 4000),
        25 => kara_sign_pair(),
        15 => (33usize..=256).prop_map(|k| (vec![MAX; k], vec![MAX; k])),
        15 => with_low_zeros(sized_pair(&SHORT_KARA, 600)),
    ];
    let toom = prop_oneof![
        45 => sized_pair(&SHORT_TOOM, 1600),
        15 => sized_pair(&SHORT_TOOM, 8000),
        15 => toom_sign_pair(),
        20 => (257usize..=600).prop_map(|k| (vec![MAX; k], vec![MAX; k])),
        20 => with_low_zeros(sized_pair(&SHORT_TOOM, 1200)),
    ];
    match tier {
        Tier::Quick => prop_oneof![86 => small, 11 => kara, 3 => toom].boxed(),
        Tier::Thorough => {
            let huge = (select(vec![700usize, 1024, 2048, 3000, 4096, 8192, 16384]), 0u8..4, any::<u8>(), any::<u64>(), any::<u8>(), any::<u64>()).prop_map(|(x, rel, ka, sa, kb, sb)| {
                let y = match rel { 0 => x, 1 => x + 1, 2 => 2 * x, _ => x + x / 3 }.min(16384);
                (fix_top(gen::expand(ka, sa, x)), fix_top(gen::expand(kb, sb, y)))
            });
            prop_oneof![800 => small, 150 => kara, 45 => toom, 5 => huge].boxed()
        }
    }
}

impl Property for C02 {
    fn id(&self) -> &'static str {
        "C02"
    }
    fn rule(&self) -> &'static str {
        "Cases are operand pairs for BigUint (mul.u), BigInt with all sign pairs (mul.i) and scalar forms (mul.s: every primitive type that can hold the scalar, both sides, val/ref, op-assign). Shorter lengths come from {1,2,3,..,30..34,40} (long), {33..35,48,63..66,127..129,200,255,256} (Karatsuba) and {257..260,300,383..385,512,513} (Toom-3); the longer length is the shorter + 0..5, just below 2x, = 2x, > 2x, 3x, 4x, 8x, 15x (nested half-splits), so every residue mod 2 and mod 3 and both sides of the half-Karatsuba condition occur; digit content is expanded from eight pattern kinds (special alphabet, uniform, all ones, bit runs, sparse, zero/MAX blocks, dense, MAX/MAX-1/1/2^63 mix) plus all-ones squares of every length, halves ordered to force each sign of the Karatsuba middle term (Plus, Minus, NoSign), thirds sized to make the Toom-3 evaluation points negative / zero and to leave a short top third, and 0..39 low zero digits on either operand. Oracle: exact RefInt schoolbook product when the shorter operand has <= 600 digits, and always three modular fingerprints (61-bit primes, u128 arithmetic); thorough adds operands up to 16384 digits (fingerprints only). 9 forms per pair. Non-trivial: both operands >= 2 digits."
    }
    fn strategy(&self, tier: Tier) -> BoxedStrategy<Case> {
        let u = mul_pair(tier).prop_map(|(a, b)| Case::new("mul.u", vec![Arg::N(a), Arg::N(b)]));
        let i = (any::<bool>(), any::<bool>(), mul_pair(tier)).prop_map(|(sa, sb, (a, b))| Case::new("mul.i", vec![Arg::Z(sa, a), Arg::Z(sb, b)]));
        let s = (any::<bool>(), prop_oneof![70 => gen::nat(6), 30 => gen::nat(60)], gen::scalar_i128()).prop_map(|(sa, a, s)| Case::new("mul.s", vec![Arg::Z(sa, a), Arg::I(s)]));
        let s2 = (any::<bool>(), gen::nat(6), 0u32..127, any::<bool>()).prop_map(|(sa, a, k, n)| {
            let v = 1i128 << k;
            Case::new("mul.s", vec![Arg::Z(sa, a), Arg::I(if n { -v } else { v })])
        });
        prop_oneof![45 => u, 40 => i, 10 => s, 5 => s2].boxed()
    }
    fn check(&self, c: &Case) -> Verdict {
        match c.op.as_str() {
            "mul.u" => check_u(c.n(0), c.n(1)),
            "mul.i" => {
                let (sa, a) = c.z(0);
                let (sb, b) = c.z(1);
                check_i(sa, a, sb, b)
            }
            "mul.s" => {
                let (sa, a) = c.z(0);
                check_scalar(sa, a, c.i(1))
            }
            o => Err(format!("unknown op {}", o)),
        }
    }
    fn budget(&self, tier: Tier) -> Budget {
        match tier {
            Tier::Quick => Budget { release: 1_000_000, dbg: 120_000, workers: 8 },
            Tier::Thorough => Budget { release: 24_000_000, dbg: 2_400_000, workers: 16 },
        }
    }
    fn probes(&self) -> Vec<Probe> {
        use Probe::*;
        vec![MUL_STRIP_LOW_ZEROS, MUL_LONG, MUL_HALF_KARATSUBA, MUL_KARATSUBA, MUL_KARATSUBA_PLUS, MUL_KARATSUBA_MINUS, MUL_TOOM3, MUL_SCALAR_POW2]
    }
    fn assumptions(&self) -> Vec<String> {
        vec![
            "RefInt schoolbook multiplication is correct (cross-checked against CPython)".into(),
            "above 600 digits only modular fingerprints decide: a wrong product survives all three 61-bit primes with probability ~2^-183".into(),
        ]
    }
}
