//! C09 — byte and digit-vector import/export is exact, minimal and order-consistent; the digit
//! iterators are exact-size double-ended iterators under any interleaving of calls.
use crate::engine::*;
use crate::gen;
use crate::lib_util::*;
use crate::refint::{Nat, RefInt};
use nbcase::{Arg, Case};
use num_bigint::{BigInt, BigUint, Sign};
use proptest::collection::vec;
use proptest::prelude::*;

pub struct C09;

fn sign_of(i: i128) -> Sign {
    match i {
        0 => Sign::NoSign,
        x if x > 0 => Sign::Plus,
        _ => Sign::Minus,
    }
}

fn export_u(a: &[u64]) -> Verdict {
    let x = bu(a);
    let n = rn(a);
    let mut le = n.to_bytes_le();
    if le.is_empty() {
        le.push(0);
    }
    let mut be = le.clone();
    be.reverse();
    let got = must_return("to_bytes_le", || x.to_bytes_le())?;
    if got != le {
        return Err(format!("to_bytes_le: got {:02x?} want {:02x?}", got, le));
    }
    let got = must_return("to_bytes_be", || x.to_bytes_be())?;
    if got != be {
        return Err(format!("to_bytes_be: got {:02x?} want {:02x?}", got, be));
    }
    let d32 = n.to_u32_digits();
    let d64 = n.to_u64_digits();
    if must_return("to_u32_digits", || x.to_u32_digits())? != d32 {
        return Err(format!("to_u32_digits: got {:x?} want {:x?}", x.to_u32_digits(), d32));
    }
    if must_return("to_u64_digits", || x.to_u64_digits())? != d64 {
        return Err(format!("to_u64_digits: got {:x?} want {:x?}", x.to_u64_digits(), d64));
    }
    let it: Vec<u32> = must_return("iter_u32_digits", || x.iter_u32_digits().collect())?;
    if it != d32 {
        return Err(format!("iter_u32_digits().collect(): got {:x?} want {:x?}", it, d32));
    }
    let mut it: Vec<u32> = must_return("iter_u32_digits.rev", || x.iter_u32_digits().rev().collect())?;
    it.reverse();
    if it != d32 {
        return Err(format!("iter_u32_digits().rev(): got {:x?} want {:x?}", it, d32));
    }
    let it: Vec<u64> = must_return("iter_u64_digits", || x.iter_u64_digits().collect())?;
    if it != d64 {
        return Err(format!("iter_u64_digits().collect(): got {:x?} want {:x?}", it, d64));
    }
    if x.iter_u32_digits().len() != d32.len() || x.iter_u64_digits().len() != d64.len() {
        return Err("iterator len() disagrees with the digit count".into());
    }
    // num_traits::ToBytes / FromBytes are separate trait impls over the same encodings
    {
        use num_traits::{FromBytes, ToBytes};
        let got = must_return("ToBytes::to_le_bytes", || ToBytes::to_le_bytes(&x))?;
        if got != le {
            return Err(format!("<BigUint as ToBytes>::to_le_bytes: got {:02x?} want {:02x?}", got, le));
        }
        let got = must_return("ToBytes::to_be_bytes", || ToBytes::to_be_bytes(&x))?;
        if got != be {
            return Err(format!("<BigUint as ToBytes>::to_be_bytes: got {:02x?} want {:02x?}", got, be));
        }
        ctx(must_return("FromBytes::from_le_bytes", || <BigUint as FromBytes>::from_le_bytes(&le)).and_then(|v| eq_bu(&v, &n)), "<BigUint as FromBytes>::from_le_bytes")?;
        ctx(must_return("FromBytes::from_be_bytes", || <BigUint as FromBytes>::from_be_bytes(&be)).and_then(|v| eq_bu(&v, &n)), "<BigUint as FromBytes>::from_be_bytes")?;
    }
    // round trips
    ctx(eq_bu(&BigUint::from_bytes_le(&le), &n), "from_bytes_le(to_bytes_le)")?;
    ctx(eq_bu(&BigUint::from_bytes_be(&be), &n), "from_bytes_be(to_bytes_be)")?;
    ctx(eq_bu(&BigUint::from_slice(&d32), &n), "from_slice(to_u32_digits)")?;
    Ok(Info::new(d32.len() >= 2)
        .class("export_biguint")
        .class_if(d32.len() % 2 == 1, "top_u64_digit_upper_half_zero")
        .class_if(n.is_zero(), "zero"))
}

fn export_i(neg: bool, a: &[u64]) -> Verdict {
    let x = bi(neg, a);
    let r = ri(neg, a);
    let want_sign = sign_of(r.signum() as i128);
    let mut le = r.mag.to_bytes_le();
    if le.is_empty() {
        le.push(0);
    }
    let mut be = le.clone();
    be.reverse();
    let (s, got) = must_return("BigInt::to_bytes_le", || x.to_bytes_le())?;
    if s != want_sign || got != le {
        return Err(format!("BigInt::to_bytes_le: got ({:?},{:02x?}) want ({:?},{:02x?})", s, got, want_sign, le));
    }
    let (s, got) = must_return("BigInt::to_bytes_be", || x.to_bytes_be())?;
    if s != want_sign || got != be {
        return Err(format!("BigInt::to_bytes_be: got ({:?},{:02x?}) want ({:?},{:02x?})", s, got, want_sign, be));
    }
    let sle = r.to_signed_bytes_le();
    let mut sbe = sle.clone();
    sbe.reverse();
    let got = must_return("to_signed_bytes_le", || x.to_signed_bytes_le())?;
    if got != sle {
        return Err(format!("to_signed_bytes_le: got {:02x?} want the shortest two's-complement encoding {:02x?}", got, sle));
    }
    let got = must_return("to_signed_bytes_be", || x.to_signed_bytes_be())?;
    if got != sbe {
        return Err(format!("to_signed_bytes_be: got {:02x?} want {:02x?}", got, sbe));
    }
    {
        // the trait forms for BigInt use the signed (two's-complement) encodings
        use num_traits::{FromBytes, ToBytes};
        let got = must_return("ToBytes::to_le_bytes", || ToBytes::to_le_bytes(&x))?;
        if got != sle {
            return Err(format!("<BigInt as ToBytes>::to_le_bytes: got {:02x?} want {:02x?}", got, sle));
        }
        let got = must_return("ToBytes::to_be_bytes", || ToBytes::to_be_bytes(&x))?;
        if got != sbe {
            return Err(format!("<BigInt as ToBytes>::to_be_bytes: got {:02x?} want {:02x?}", got, sbe));
        }
        ctx(must_return("FromBytes::from_le_bytes", || <BigInt as FromBytes>::from_le_bytes(&sle)).and_then(|v| eq_bi(&v, &r)), "<BigInt as FromBytes>::from_le_bytes")?;
        ctx(must_return("FromBytes::from_be_bytes", || <BigInt as FromBytes>::from_be_bytes(&sbe)).and_then(|v| eq_bi(&v, &r)), "<BigInt as FromBytes>::from_be_bytes")?;
    }
    ctx(eq_bi(&BigInt::from_signed_bytes_le(&sle), &r), "from_signed_bytes_le(to_signed_bytes_le)")?;
    ctx(eq_bi(&BigInt::from_signed_bytes_be(&sbe), &r), "from_signed_bytes_be(to_signed_bytes_be)")?;
    let (s, d) = must_return("BigInt::to_u32_digits", || x.to_u32_digits())?;
    if s != want_sign || d != r.mag.to_u32_digits() {
        return Err(format!("BigInt::to_u32_digits: got ({:?},{:x?})", s, d));
    }
    let (s, d) = must_return("BigInt::to_u64_digits", || x.to_u64_digits())?;
    if s != want_sign || d != r.mag.to_u64_digits() {
        return Err(format!("BigInt::to_u64_digits: got ({:?},{:x?})", s, d));
    }
    let it: Vec<u32> = x.iter_u32_digits().collect();
    if it != r.mag.to_u32_digits() {
        return Err(format!("BigInt::iter_u32_digits: got {:x?}", it));
    }
    let it: Vec<u64> = x.iter_u64_digits().collect();
    if it != r.mag.to_u64_digits() {
        return Err(format!("BigInt::iter_u64_digits: got {:x?}", it));
    }
    let bits = r.mag.bits();
    Ok(Info::new(r.mag.to_u32_digits().len() >= 2)
        .class("export_bigint")
        .class_if(neg && r.mag.count_ones() == 1, "negative_power_of_two")
        .class_if(bits % 8 == 0 && !r.is_zero(), "magnitude_fills_top_byte"))
}

fn import_bytes(b: &[u8]) -> Verdict {
    let le = Nat::from_bytes_le(b);
    let mut rev = b.to_vec();
    rev.reverse();
    let be = Nat::from_bytes_le(&rev);
    ctx(must_return("from_bytes_le", || BigUint::from_bytes_le(b)).and_then(|v| eq_bu(&v, &le)), "BigUint::from_bytes_le")?;
    ctx(must_return("from_bytes_be", || BigUint::from_bytes_be(b)).and_then(|v| eq_bu(&v, &be)), "BigUint::from_bytes_be")?;
    for (s, neg) in [(Sign::Plus, false), (Sign::Minus, true), (Sign::NoSign, false)] {
        let want_le = if s == Sign::NoSign { RefInt::zero() } else { RefInt::new(neg, le.clone()) };
        let want_be = if s == Sign::NoSign { RefInt::zero() } else { RefInt::new(neg, be.clone()) };
        ctx(must_return("BigInt::from_bytes_le", || BigInt::from_bytes_le(s, b)).and_then(|v| eq_bi(&v, &want_le)), &format!("BigInt::from_bytes_le({:?})", s))?;
        ctx(must_return("BigInt::from_bytes_be", || BigInt::from_bytes_be(s, b)).and_then(|v| eq_bi(&v, &want_be)), &format!("BigInt::from_bytes_be({:?})", s))?;
    }
    let sle = RefInt::from_signed_bytes_le(b);
    let sbe = RefInt::from_signed_bytes_le(&rev);
    ctx(must_return("from_signed_bytes_le", || BigInt::from_signed_bytes_le(b)).and_then(|v| eq_bi(&v, &sle)), "BigInt::from_signed_bytes_le")?;
    ctx(must_return("from_signed_bytes_be", || BigInt::from_signed_bytes_be(b)).and_then(|v| eq_bi(&v, &sbe)), "BigInt::from_signed_bytes_be")?;
    let padded = b.len() >= 2 && {
        let t = b[b.len() - 1];
        let n = b[b.len() - 2];
        (t == 0 && n & 0x80 == 0) || (t == 0xff && n & 0x80 != 0)
    };
    Ok(Info::new(b.len() >= 5)
        .class("import_bytes")
        .class_if(b.is_empty(), "empty")
        .class_if(padded, "redundant_sign_padding")
        .class_if(!b.is_empty() && b.iter().all(|x| *x == 0), "all_zero"))
}

fn import_words(words: &[Arg], sg: i128, prev: (bool, &Vec<u64>)) -> Verdict {
    let w: Vec<u32> = words.iter().map(|a| a.as_u() as u32).collect();
    let n = Nat::from_u32_digits(&w);
    ctx(must_return("BigUint::new", || BigUint::new(w.clone())).and_then(|v| eq_bu(&v, &n)), "BigUint::new")?;
    ctx(must_return("BigUint::from_slice", || BigUint::from_slice(&w)).and_then(|v| eq_bu(&v, &n)), "BigUint::from_slice")?;
    ctx(
        must_return("BigUint::assign_from_slice", || {
            // the target may be longer than the new value and carry spare capacity from an earlier, larger value
            let mut t = bu(prev.1);
            t <<= 700u32;
            t >>= 700u32;
            t.assign_from_slice(&w);
            t
        })
        .and_then(|v| eq_bu(&v, &n)),
        "BigUint::assign_from_slice",
    )?;
    let s = sign_of(sg);
    let want = if s == Sign::NoSign { RefInt::zero() } else { RefInt::new(s == Sign::Minus, n.clone()) };
    ctx(must_return("BigInt::new", || BigInt::new(s, w.clone())).and_then(|v| eq_bi(&v, &want)), "BigInt::new")?;
    ctx(must_return("BigInt::from_slice", || BigInt::from_slice(s, &w)).and_then(|v| eq_bi(&v, &want)), "BigInt::from_slice")?;
    ctx(
        must_return("BigInt::assign_from_slice", || {
            let mut t = bi(prev.0, prev.1);
            t.assign_from_slice(s, &w);
            t
        })
        .and_then(|v| eq_bi(&v, &want)),
        "BigInt::assign_from_slice",
    )?;
    Ok(Info::new(w.len() >= 2)
        .class("import_words")
        .class_if(w.len() % 2 == 1, "odd_word_count")
        .class_if(w.last() == Some(&0), "redundant_high_zero_words")
        .class_if(s == Sign::NoSign && !n.is_zero(), "nosign_with_nonzero_digits")
        .class_if(s != Sign::NoSign && n.is_zero(), "signed_zero_request"))
}

/// iterator history: steps = list of I; 0 next, 1 next_back, 2 len, 3 size_hint, 4+k nth(k);
/// terminal: 0 last, 1 count, 2 collect, 3 rev-collect
fn iter_history<T: Copy + PartialEq + std::fmt::Debug>(
    name: &str,
    mut it: impl DoubleEndedIterator<Item = T> + ExactSizeIterator,
    model_digits: &[T],
    steps: &[Arg],
    terminal: i128,
) -> Verdict {
    let mut model = model_digits.iter();
    let mut both_ends = (false, false);
    for (i, st) in steps.iter().enumerate() {
        let st = st.as_i();
        let at = |what: &str| format!("{} step {} ({})", name, i, what);
        match st {
            0 => {
                both_ends.0 = true;
                let (g, w) = (it.next(), model.next().copied());
                if g != w {
                    return Err(format!("{}: got {:x?} want {:x?}", at("next"), g, w));
                }
            }
            1 => {
                both_ends.1 = true;
                let (g, w) = (it.next_back(), model.next_back().copied());
                if g != w {
                    return Err(format!("{}: got {:x?} want {:x?}", at("next_back"), g, w));
                }
            }
            2 => {
                if it.len() != model.len() {
                    return Err(format!("{}: got {} want {}", at("len"), it.len(), model.len()));
                }
            }
            3 => {
                if it.size_hint() != model.size_hint() {
                    return Err(format!("{}: got {:?} want {:?}", at("size_hint"), it.size_hint(), model.size_hint()));
                }
            }
            k => {
                let k = usize::try_from((k - 4).max(0)).unwrap_or(usize::MAX);
                both_ends.0 = true;
                let (g, w) = (it.nth(k), model.nth(k).copied());
                if g != w {
                    return Err(format!("{}: nth({}) got {:x?} want {:x?}", at("nth"), k, g, w));
                }
            }
        }
    }
    if it.len() != model.len() {
        return Err(format!("{}: final len() got {} want {}", name, it.len(), model.len()));
    }
    match terminal {
        0 => {
            let (g, w) = (it.last(), model.last().copied());
            if g != w {
                return Err(format!("{}: last() got {:x?} want {:x?}", name, g, w));
            }
        }
        1 => {
            let (g, w) = (it.count(), model.count());
            if g != w {
                return Err(format!("{}: count() got {} want {}", name, g, w));
            }
        }
        2 => {
            let (g, w): (Vec<T>, Vec<T>) = (it.collect(), model.copied().collect());
            if g != w {
                return Err(format!("{}: collect() got {:x?} want {:x?}", name, g, w));
            }
        }
        _ => {
            let (g, w): (Vec<T>, Vec<T>) = (it.rev().collect(), model.rev().copied().collect());
            if g != w {
                return Err(format!("{}: rev().collect() got {:x?} want {:x?}", name, g, w));
            }
        }
    }
    Ok(Info::new(model_digits.len() >= 2 && both_ends.0 && both_ends.1)
        .class_if(both_ends.0 && both_ends.1, "history_uses_both_ends")
        .class_if(terminal == 0, "terminal_last")
        .class_if(terminal == 1, "terminal_count"))
}

fn check_iter(c: &Case) -> Verdict {
    let (neg, a) = c.z(0);
    let steps = c.l(1);
    let term = c.i(2);
    let which = c.i(3); // 0: BigUint u32, 1: BigUint u64, 2: BigInt u32, 3: BigInt u64
    let n = rn(a);
    let r = match which {
        0 => {
            let x = bu(a);
            let d = n.to_u32_digits();
            must_return("iterator history", || iter_history("BigUint::iter_u32_digits", x.iter_u32_digits(), &d, steps, term))?
        }
        1 => {
            let x = bu(a);
            let d = n.to_u64_digits();
            must_return("iterator history", || iter_history("BigUint::iter_u64_digits", x.iter_u64_digits(), &d, steps, term))?
        }
        2 => {
            let x = bi(neg, a);
            let d = n.to_u32_digits();
            must_return("iterator history", || iter_history("BigInt::iter_u32_digits", x.iter_u32_digits(), &d, steps, term))?
        }
        _ => {
            let x = bi(neg, a);
            let d = n.to_u64_digits();
            must_return("iterator history", || iter_history("BigInt::iter_u64_digits", x.iter_u64_digits(), &d, steps, term))?
        }
    };
    r.map(|i| i.class("iterator_history").class_if(n.to_u32_digits().len() % 2 == 1, "odd_u32_digit_count"))
}

fn value() -> BoxedStrategy<Vec<u64>> {
    prop_oneof![
        30 => gen::nat(6),
        10 => gen::nat(40),
        // top u64 digit with a zero upper half
        15 => (vec(gen::digit(), 0..=5), any::<u32>()).prop_map(|(mut v, t)| { v.push(t as u64); gen::trim(v) }),
        // 2^(8k-1) + {-1,0,1}: where the signed encoding changes length
        25 => (1u64..=48, -1i64..=1).prop_map(|(k, d)| {
            let p = RefInt::from_nat(Nat::pow2(8 * k - 1)).add(&RefInt::from_i128(d as i128));
            p.mag.to_u64_digits()
        }),
        10 => (0u64..=400).prop_map(|k| Nat::pow2(k).to_u64_digits()),
        10 => (0u64..=400).prop_map(|k| Nat::pow2(k).sub(&Nat::one()).to_u64_digits()),
    ]
    .boxed()
}

fn byte_string() -> BoxedStrategy<Vec<u8>> {
    let byte = prop_oneof![
        40 => proptest::sample::select(vec![0u8, 1, 0x7f, 0x80, 0x81, 0xfe, 0xff]),
        60 => any::<u8>(),
    ];
    (prop_oneof![85 => vec(byte.clone(), 0..=40), 15 => vec(byte, 41..=400)], 0usize..=9, proptest::sample::select(vec![0u8, 0xff]), any::<bool>())
        .prop_map(|(mut core, pad, padbyte, do_pad)| {
            if do_pad {
                core.extend(std::iter::repeat(padbyte).take(pad));
            }
            core
        })
        .boxed()
}

impl Property for C09 {
    fn id(&self) -> &'static str {
        "C09"
    }
    fn rule(&self) -> &'static str {
        "Cases: export.u / export.i (value -> bytes, signed bytes, u32/u64 digit vectors, iterator collections, with round trips), import.bytes (arbitrary byte strings incl. empty, all-zero, 0x00../0xff.. sign-extension padding of 0..9 bytes, through from_bytes_{le,be}, from_signed_bytes_{le,be}, BigInt::from_bytes with all three signs), import.words (u32 word lists with redundant high zeros and odd counts through new / from_slice / assign_from_slice onto an existing value, all three signs), and iterator histories (a value plus up to 12 steps of next / next_back / nth(k) (k small, around the remaining length, and usize::MAX, usize::MAX-1, usize::MAX/2) / len / size_hint ending in last, count, collect or rev().collect on iter_u32_digits / iter_u64_digits of BigUint and BigInt) checked step by step against std::slice::Iter over the model's digit list. Values include 2^(8k-1)+{-1,0,1}, +-2^k, 2^k-1 and top digits with a zero upper half. Non-trivial: >= 2 u32 digits (>= 5 bytes for byte imports); for histories additionally steps from both ends."
    }
    fn strategy(&self, _tier: Tier) -> BoxedStrategy<Case> {
        let step = prop_oneof![
            35 => Just(0i128),
            35 => Just(1i128),
            8 => Just(2i128),
            7 => Just(3i128),
            12 => (0i128..=5).prop_map(|k| 4 + k),
            // nth with arguments at and far beyond the remaining length (incl. usize::MAX: index arithmetic must not wrap)
            5 => proptest::sample::select(vec![6i128, 7, 8, 12, 13, 64, usize::MAX as i128, usize::MAX as i128 - 1, (usize::MAX / 2) as i128, (usize::MAX / 2) as i128 + 1, u32::MAX as i128]).prop_map(|k| 4 + k),
        ];
        let hist = (any::<bool>(), prop_oneof![70 => gen::nat(3), 30 => value()], vec(step, 0..=12), 0i128..=3, 0i128..=3).prop_map(|(neg, a, steps, term, which)| {
            Case::new(
                "iter",
                vec![Arg::Z(neg, a), Arg::L(steps.into_iter().map(Arg::I).collect()), Arg::I(term), Arg::I(which)],
            )
        });
        let word = prop_oneof![
            40 => proptest::sample::select(vec![0u32, 1, u32::MAX, 1 << 31]),
            60 => any::<u32>(),
        ];
        let words = (prop_oneof![85 => vec(word.clone(), 0..=12), 15 => vec(word, 13..=120)], 0usize..=4, -1i128..=1, any::<bool>(), prop_oneof![70 => gen::nat(4), 30 => gen::nat(40)]).prop_map(|(mut w, z, sg, pneg, prev)| {
            w.extend(std::iter::repeat(0).take(z));
            Case::new(
                "import.words",
                vec![Arg::L(w.into_iter().map(|x| Arg::U(x as u128)).collect()), Arg::I(sg), Arg::Z(pneg, prev)],
            )
        });
        prop_oneof![
            15 => value().prop_map(|a| Case::new("export.u", vec![Arg::N(a)])),
            20 => (any::<bool>(), value()).prop_map(|(s, a)| Case::new("export.i", vec![Arg::Z(s, a)])),
            15 => byte_string().prop_map(|b| Case::new("import.bytes", vec![Arg::B(b)])),
            15 => words,
            35 => hist,
        ]
        .boxed()
    }
    fn check(&self, c: &Case) -> Verdict {
        match c.op.as_str() {
            "export.u" => export_u(c.n(0)),
            "export.i" => {
                let (s, a) = c.z(0);
                export_i(s, a)
            }
            "import.bytes" => import_bytes(c.b(0)),
            "import.words" => import_words(c.l(0), c.i(1), c.z(2)),
            "iter" => check_iter(c),
            o => Err(format!("unknown op {}", o)),
        }
    }
    fn budget(&self, tier: Tier) -> Budget {
        match tier {
            Tier::Quick => Budget { release: 4_500_000, dbg: 1_500_000, workers: 8 },
            Tier::Thorough => Budget { release: 160_000_000, dbg: 40_000_000, workers: 16 },
        }
    }
    fn technique(&self) -> &'static str {
        "property-based testing (proptest): value/byte-string/word-list generators with sign-extension padding and boundary magnitudes against RefInt encodings; model-based iterator histories (vec(op) + interpreter) against std::slice::Iter"
    }
    fn assumptions(&self) -> Vec<String> {
        vec!["RefInt byte/two's-complement encodings are cross-checked against CPython int.to_bytes/from_bytes".into()]
    }
}
