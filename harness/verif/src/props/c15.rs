//! C15 — unsafe code never touches memory outside its buffers nor yields invalid UTF-8.
use crate::engine::*;
use crate::gen;
use crate::guard;
use crate::lib_util::*;
use crate::props::c18::StreamRng;
use crate::refint::{Nat, RefInt};
use nbcase::{Arg, Case};
use num_bigint::{BigInt, BigUint, RandBigInt};
use num_integer::Integer;
use proptest::collection::vec;
use proptest::prelude::*;
use proptest::sample::select;
use std::cmp::Ordering;

pub struct C15;

fn mode_of(m: i128) -> u8 {
    if m % 2 == 0 {
        guard::END
    } else {
        guard::START
    }
}

/// clone inside the guard scope: the copy's buffer is exactly `len` digits and sits against a guard page
fn gclone<T: Clone>(v: &T) -> T {
    v.clone()
}

fn addsub(a: &[u64], b: &[u64], sa: bool, sb: bool, m: i128) -> Verdict {
    let (x0, y0) = (bu(a), bu(b));
    let (ix0, iy0) = (bi(sa, a), bi(sb, b));
    let (ra, rb) = (rn(a), rn(b));
    let (ia, ib) = (ri(sa, a), ri(sb, b));
    let sum = ra.add(&rb);
    let ord = ra.cmp(&rb);
    let isum = ia.add(&ib);
    let idiff = ia.sub(&ib);
    // everything below allocates from guarded pages
    let outcome: Result<(), String> = {
        let _g = guard::Scope::new(mode_of(m));
        (|| {
            let (x, y) = (gclone(&x0), gclone(&y0));
            // add, every form (fresh exact-size copies for the consuming forms)
            ctx(catch(|| &x + &y).and_then(|r| eq_bu(&r, &sum)), "&a + &b")?;
            ctx(catch(|| gclone(&x) + &y).and_then(|r| eq_bu(&r, &sum)), "a + &b")?;
            ctx(catch(|| &x + gclone(&y)).and_then(|r| eq_bu(&r, &sum)), "&a + b")?;
            ctx(catch(|| gclone(&y) + &x).and_then(|r| eq_bu(&r, &sum)), "b + &a")?;
            ctx(catch(|| { let mut t = gclone(&x); t += &y; t }).and_then(|r| eq_bu(&r, &sum)), "a += &b")?;
            ctx(catch(|| { let mut t = gclone(&y); t += &x; t }).and_then(|r| eq_bu(&r, &sum)), "b += &a")?;
            ctx(catch(|| { let mut t = gclone(&x); t += gclone(&y); t }).and_then(|r| eq_bu(&r, &sum)), "a += b")?;
            // sub, both directions; the underflowing direction must panic without touching memory it does not own
            for (p, q, rp, rq, o, tag) in [(&x, &y, &ra, &rb, ord, "a-b"), (&y, &x, &rb, &ra, ord.reverse(), "b-a")] {
                if o != Ordering::Less {
                    let d = rp.sub(rq);
                    ctx(catch(|| p - q).and_then(|r| eq_bu(&r, &d)), &format!("{} ref-ref", tag))?;
                    ctx(catch(|| gclone(p) - q).and_then(|r| eq_bu(&r, &d)), &format!("{} val-ref", tag))?;
                    ctx(catch(|| p - gclone(q)).and_then(|r| eq_bu(&r, &d)), &format!("{} ref-val", tag))?;
                    ctx(catch(|| { let mut t = gclone(p); t -= q; t }).and_then(|r| eq_bu(&r, &d)), &format!("{} -= ref", tag))?;
                    ctx(catch(|| { let mut t = gclone(p); t -= gclone(q); t }).and_then(|r| eq_bu(&r, &d)), &format!("{} -= val", tag))?;
                } else {
                    if catch(|| p - q).is_ok() || catch(|| gclone(p) - q).is_ok() || catch(|| p - gclone(q)).is_ok() || catch(|| { let mut t = gclone(p); t -= q; t }).is_ok() {
                        return Err(format!("{}: BigUint subtraction below zero returned a value", tag));
                    }
                }
            }
            // borrowed operands must be bit-for-bit unchanged
            eq_bu(&x, &ra).map_err(|e| format!("borrowed operand a was modified: {}", e))?;
            eq_bu(&y, &rb).map_err(|e| format!("borrowed operand b was modified: {}", e))?;
            // BigInt forms (sign dispatch decides which of the raw loops runs and on whose buffer)
            let (ix, iy) = (gclone(&ix0), gclone(&iy0));
            ctx(catch(|| &ix + &iy).and_then(|r| eq_bi(&r, &isum)), "BigInt &a + &b")?;
            ctx(catch(|| gclone(&ix) + &iy).and_then(|r| eq_bi(&r, &isum)), "BigInt a + &b")?;
            ctx(catch(|| &ix + gclone(&iy)).and_then(|r| eq_bi(&r, &isum)), "BigInt &a + b")?;
            ctx(catch(|| gclone(&ix) + gclone(&iy)).and_then(|r| eq_bi(&r, &isum)), "BigInt a + b")?;
            ctx(catch(|| { let mut t = gclone(&ix); t += &iy; t }).and_then(|r| eq_bi(&r, &isum)), "BigInt a += &b")?;
            ctx(catch(|| &ix - &iy).and_then(|r| eq_bi(&r, &idiff)), "BigInt &a - &b")?;
            ctx(catch(|| gclone(&ix) - &iy).and_then(|r| eq_bi(&r, &idiff)), "BigInt a - &b")?;
            ctx(catch(|| &ix - gclone(&iy)).and_then(|r| eq_bi(&r, &idiff)), "BigInt &a - b")?;
            ctx(catch(|| gclone(&ix) - gclone(&iy)).and_then(|r| eq_bi(&r, &idiff)), "BigInt a - b")?;
            ctx(catch(|| { let mut t = gclone(&ix); t -= &iy; t }).and_then(|r| eq_bi(&r, &idiff)), "BigInt a -= &b")?;
            eq_bi(&ix, &ia).map_err(|e| format!("borrowed BigInt operand a was modified: {}", e))?;
            eq_bi(&iy, &ib).map_err(|e| format!("borrowed BigInt operand b was modified: {}", e))?;
            Ok(())
        })()
    };
    outcome?;
    let (la, lb) = (ra.to_u64_digits().len(), rb.to_u64_digits().len());
    Ok(Info::new(la.min(lb) >= 5)
        .class("guarded_add_sub")
        .class_if(la.min(lb) >= 5, "asm_block_runs")
        .class_if(la != lb, "unequal_lengths")
        .class_if(ord != Ordering::Equal && la.abs_diff(lb) >= 5, "underflow_with_longer_subtrahend_by_a_block")
        .class(if mode_of(m) == guard::END { "block_ends_at_guard_page" } else { "block_starts_after_guard_page" })
        .class_if(la.min(lb) % 5 != 0, "length_not_multiple_of_5"))
}

fn division(a: &[u64], b: &[u64], m: i128) -> Verdict {
    let (x0, y0) = (bu(a), bu(b));
    let (ra, rb) = (rn(a), rn(b));
    if rb.is_zero() {
        // a zero divisor must reach the documented panic, never the hardware divide (SIGFPE)
        let _g = guard::Scope::new(mode_of(m));
        let x = gclone(&x0);
        let xi = num_bigint::BigInt::from(x.clone());
        macro_rules! zero_scalar {
            ($($T:ty),*) => {$(
                {
                    let z: $T = 0;
                    if catch(|| &x / z).is_ok() || catch(|| &x % z).is_ok() || catch(|| { let mut t = gclone(&x); t /= z; t }).is_ok() || catch(|| { let mut t = gclone(&x); t %= z; t }).is_ok()
                        || catch(|| &xi / z).is_ok() || catch(|| &xi % z).is_ok() {
                        return Err(format!("division of a {}-digit value by zero {} returned a value", ra.to_u64_digits().len(), stringify!($T)));
                    }
                }
            )*};
        }
        zero_scalar!(u8, u16, u32, u64, u128, usize);
        macro_rules! zero_scalar_signed {
            ($($T:ty),*) => {$(
                { let z: $T = 0; if catch(|| &xi / z).is_ok() || catch(|| &xi % z).is_ok() { return Err(format!("BigInt / zero {} returned a value", stringify!($T))); } }
            )*};
        }
        zero_scalar_signed!(i8, i16, i32, i64, i128, isize);
        if catch(|| &x / &y0).is_ok() || catch(|| &x % &y0).is_ok() || catch(|| x.div_rem(&y0)).is_ok() {
            return Err("division by a zero BigUint returned a value".into());
        }
        return Ok(Info::new(ra.to_u64_digits().len() >= 2).class("guarded_division_by_zero_panics"));
    }
    let (q, r) = ra.divrem(&rb);
    let outcome: Result<(), String> = {
        let _g = guard::Scope::new(mode_of(m));
        (|| {
            let (x, y) = (gclone(&x0), gclone(&y0));
            let (gq, gr) = catch(|| x.div_rem(&y)).map_err(|p| format!("div_rem panicked: {}", p))?;
            ctx(eq_bu(&gq, &q), "div_rem quotient")?;
            ctx(eq_bu(&gr, &r), "div_rem remainder")?;
            ctx(catch(|| gclone(&x) / gclone(&y)).and_then(|v| eq_bu(&v, &q)), "a / b by value")?;
            ctx(catch(|| gclone(&x) % gclone(&y)).and_then(|v| eq_bu(&v, &r)), "a % b by value")?;
            ctx(catch(|| &x % &y).and_then(|v| eq_bu(&v, &r)), "&a % &b")?;
            eq_bu(&x, &ra).map_err(|e| format!("borrowed dividend was modified: {}", e))?;
            eq_bu(&y, &rb).map_err(|e| format!("borrowed divisor was modified: {}", e))?;
            Ok(())
        })()
    };
    outcome?;
    Ok(Info::new(rb.to_u64_digits().len() >= 2 && ra.cmp(&rb) == Ordering::Greater).class("guarded_division_hardware_div"))
}

fn to_text(neg: bool, a: &[u64], radix: u32, m: i128) -> Verdict {
    let x0 = bi(neg, a);
    let r = ri(neg, a);
    let res = {
        let _g = guard::Scope::new(mode_of(m));
        let x = gclone(&x0);
        let s = catch(|| x.to_str_radix(radix));
        let u = catch(|| x.magnitude().to_str_radix(radix));
        // copy out of the guarded heap before leaving the scope
        (s.map(|s| s.into_bytes()), u.map(|s| s.into_bytes()), eq_bi(&x, &r))
    };
    let (s, u, unchanged) = res;
    unchanged.map_err(|e| format!("borrowed value was modified by to_str_radix: {}", e))?;
    if !(2..=36).contains(&radix) {
        if let Ok(bytes) = &s {
            return Err(format!("to_str_radix({}) returned {:?} (valid UTF-8: {}) where a panic is documented", radix, trunc(&format!("{:02x?}", bytes), 80), std::str::from_utf8(bytes).is_ok()));
        }
        if u.is_ok() {
            return Err(format!("BigUint::to_str_radix({}) returned where a panic is documented", radix));
        }
        return Ok(Info::new(true).class("radix_out_of_range_must_panic"));
    }
    let bytes = s.map_err(|p| format!("to_str_radix({}) panicked: {}", radix, p))?;
    let ubytes = u.map_err(|p| format!("BigUint::to_str_radix({}) panicked: {}", radix, p))?;
    for (which, by) in [("BigInt", &bytes), ("BigUint", &ubytes)] {
        for (i, c) in by.iter().enumerate() {
            let ok = (*c == b'-' && i == 0 && which == "BigInt") || ((*c as char).to_digit(radix).is_some() && !c.is_ascii_uppercase());
            if !ok {
                return Err(format!("{}::to_str_radix({}) produced byte 0x{:02x} at offset {}: not ASCII inside the radix alphabet", which, radix, c, i));
            }
        }
    }
    let text = String::from_utf8(bytes).map_err(|_| "to_str_radix produced invalid UTF-8".to_string())?;
    if text != r.to_string_radix(radix) {
        return Err(format!("to_str_radix({}) = {} differs from the reference {}", radix, trunc(&text, 120), trunc(&r.to_string_radix(radix), 120)));
    }
    Ok(Info::new(a.len() >= 2).class("guarded_to_str_radix"))
}

fn random_bits(prefix: &[u8], seed: u64, n: u64, m: i128) -> Verdict {
    let mut model = StreamRng::new(prefix, seed);
    let want = model.model_biguint(n);
    let got = {
        let _g = guard::Scope::new(mode_of(m));
        let mut rng = StreamRng::new(prefix, seed);
        let v = catch(|| rng.gen_biguint(n));
        v.map(|v| v.to_u64_digits())
    };
    let d = got.map_err(|p| format!("gen_biguint({}) panicked: {}", n, p))?;
    if d != want.to_u64_digits() {
        return Err(format!("gen_biguint({}) under the guard allocator returned different digits", n));
    }
    Ok(Info::new(n % 64 != 0).class("guarded_gen_biguint").class_if((n + 31) / 32 % 2 == 1, "odd_u32_word_count_in_u64_buffer"))
}

/// the largest power of `radix` that fits a u64 (and a u32): natural chunk boundaries of radix conversion
fn radix_power_digits(radix: u32) -> Vec<u64> {
    let mut out = vec![];
    for lim in [u64::MAX as u128, u32::MAX as u128] {
        let mut p = radix as u128;
        while p * (radix as u128) <= lim {
            p *= radix as u128;
        }
        out.push(p as u64);
        out.push(p as u64 - 1);
        out.push((p as u64).wrapping_add(1));
    }
    out
}

impl Property for C15 {
    fn id(&self) -> &'static str {
        "C15"
    }
    fn rule(&self) -> &'static str {
        "Every case runs inside a guard-page allocation scope: each operand is cloned there so that its buffer is exactly len digits and ends on an inaccessible page (or, in the second mode, starts right after one); freed blocks become inaccessible as well. guard.addsub: operand lengths 0..=60 in every residue mod 5, equal and unequal, from the C01 families, all add forms and all sub forms of BigUint (the underflowing direction must panic without writing outside its buffers) and BigInt; borrowed operands must equal their saved copies afterwards and results must equal RefInt. guard.div: the C03 families (hardware div), plus zero divisors of every primitive type and of BigUint, which must reach the documented panic and never the hardware divide. guard.str: to_str_radix for radix 2..=36 on values that include the per-radix largest-power-fitting-a-digit constants r^p, r^p+-1 as top or inner digits (output must be ASCII inside the radix alphabet and equal the reference) and radix 37..=256 (must panic, never return bytes). guard.rand: gen_biguint for bit sizes 0..=260 and 32k/64k+-1 up to 4096 on generated byte streams. Any access outside a buffer kills the worker with SIGSEGV (SIGFPE for a faulting div), which the driver attributes to the journalled case. Non-trivial: shorter operand >= 5 digits (asm loop runs) / divisor >= 2 digits / value >= 2 digits / bit size not a multiple of 64."
    }
    fn technique(&self) -> &'static str {
        "property-based testing (proptest) under a guard-page GlobalAlloc (mmap/mprotect: every operand buffer ends or starts at an inaccessible page), crash attribution by deterministic journal re-run, plus RefInt and alphabet oracles"
    }
    fn strategy(&self, tier: Tier) -> BoxedStrategy<Case> {
        let ml = match tier {
            Tier::Quick => 60,
            Tier::Thorough => 130,
        };
        // lengths in every residue mod 5, equal/unequal; underflow with a much longer subtrahend
        let lens = (0usize..=ml, 0usize..=ml, vec(gen::digit(), ml), vec(gen::digit(), ml)).prop_map(|(la, lb, mut a, mut b)| {
            a.truncate(la);
            b.truncate(lb);
            (gen::trim(a), gen::trim(b))
        });
        let pair = prop_oneof![45 => lens, 55 => gen::addsub_pair(ml.min(60))];
        let addsub = (pair, any::<bool>(), any::<bool>(), 0i128..2).prop_map(|((a, b), sa, sb, m)| Case::new("guard.addsub", vec![Arg::N(a), Arg::N(b), Arg::I(sa as i128), Arg::I(sb as i128), Arg::I(m)]));
        let div = (prop_oneof![92 => gen::div_pair(24), 8 => gen::nat(6).prop_map(|a| (a, vec![]))], 0i128..2).prop_map(|((a, b), m)| Case::new("guard.div", vec![Arg::N(a), Arg::N(b), Arg::I(m)]));
        let radix = prop_oneof![85 => 2u32..=36, 15 => select(vec![0u32, 1, 37, 42, 64, 100, 128, 200, 255, 256, 257])];
        let strv = (radix, vec(gen::digit(), 0..=6), any::<u16>(), any::<u8>(), any::<bool>(), 0i128..2, prop_oneof![80 => Just(0usize), 20 => 60usize..=70]).prop_map(|(r, mut v, pos, which, neg, m, extra)| {
            // plant one of the radix-power constants as a digit (the top digit in half of the cases)
            if (2..=36).contains(&r) {
                let c = radix_power_digits(r);
                let d = c[which as usize % c.len()];
                if pos % 2 == 0 || v.is_empty() {
                    v.push(d);
                } else {
                    let i = gen::idx(pos, v.len());
                    v[i] = d;
                }
            }
            let mut low = gen::expand(0, pos as u64, extra);
            low.extend(v);
            Case::new("guard.str", vec![Arg::Z(neg, gen::trim(low)), Arg::U(r as u128), Arg::I(m)])
        });
        let bits = prop_oneof![50 => 0u64..=260, 50 => (1u64..=64, -1i64..=1, any::<bool>()).prop_map(|(k, d, w)| (k as i64 * if w { 64 } else { 32 } + d).max(0) as u64)];
        let rnd = (vec(prop_oneof![select(vec![0u8, 0xff]), any::<u8>()], 0..=64), any::<u64>(), bits, 0i128..2).prop_map(|(p, s, n, m)| Case::new("guard.rand", vec![Arg::B(p), Arg::U(s as u128), Arg::U(n as u128), Arg::I(m)]));
        prop_oneof![50 => addsub, 15 => div, 20 => strv, 15 => rnd].boxed()
    }
    fn check(&self, c: &Case) -> Verdict {
        use std::sync::atomic::Ordering;
        let (g0, f0) = (guard::GUARDED_ALLOCS.load(Ordering::Relaxed), guard::FALLBACKS.load(Ordering::Relaxed));
        // a probe allocation under the guard scope shows the allocator is live for this case; the case itself may
        // legitimately allocate nothing (empty operands, gen_biguint(0)), so its own count is not required to move
        {
            let _g = guard::Scope::new(guard::END);
            let probe: Vec<u64> = Vec::with_capacity(3);
            std::hint::black_box(&probe);
        }
        let v = self.check_inner(c);
        let (g1, f1) = (guard::GUARDED_ALLOCS.load(Ordering::Relaxed), guard::FALLBACKS.load(Ordering::Relaxed));
        if f1 != f0 || g1 == g0 {
            // the memory oracle would be vacuous: never a verdict
            eprintln!("HARNESS-ERROR: guard-page allocator inactive for a C15 case ({} guarded allocations, {} fallbacks)", g1 - g0, f1 - f0);
            std::process::exit(2);
        }
        v
    }
    fn budget(&self, tier: Tier) -> Budget {
        match tier {
            Tier::Quick => Budget { release: 120_000, dbg: 60_000, workers: 8 },
            Tier::Thorough => Budget { release: 6_000_000, dbg: 2_000_000, workers: 16 },
        }
    }
    fn assumptions(&self) -> Vec<String> {
        vec![
            "an out-of-bounds access is detected when it leaves the block on the guarded side (past the end in END mode, before the start in START mode) - both modes are sampled equally; alignment slack is zero for u64 digit buffers".into(),
            "every case verifies that the guard allocator actually served its allocations (guarded-allocation counter moved, no fallback to the system allocator); otherwise the run stops as inconclusive".into(),
            "the asm operand declaration issue noted in DESIGN.md section 5 (in-register decremented) is invisible to input-driven testing in the two compiled profiles".into(),
            "sanitizer-instrumented fuzzing of the non-asm unsafe code is part of the fuzz target (thorough tier), not of this check's verdict".into(),
        ]
    }
}

impl C15 {
    fn check_inner(&self, c: &Case) -> Verdict {
        match c.op.as_str() {
            "guard.addsub" => addsub(c.n(0), c.n(1), c.i(2) != 0, c.i(3) != 0, c.i(4)),
            "guard.div" => division(c.n(0), c.n(1), c.i(2)),
            "guard.str" => {
                let (s, a) = c.z(0);
                to_text(s, a, c.u(1) as u32, c.i(2))
            }
            "guard.rand" => {
                let n = c.u(2) as u64;
                if n > 1 << 16 {
                    return Err("harness: bit size outside the generated domain".into());
                }
                random_bits(c.b(0), c.u(1) as u64, n, c.i(3))
            }
            o => Err(format!("unknown op {}", o)),
        }
    }
}

#[allow(dead_code)]
fn _t(_: &BigInt, _: &BigUint, _: &Nat, _: &RefInt) {}
