use std::path::PathBuf;
use verif::engine::{self, Known, Tier, WorkerArgs};
use verif::props;

fn verif_dir() -> PathBuf {
    std::env::var("VERIF_DIR")
        .map(PathBuf::from)
        .unwrap_or_else(|_| PathBuf::from("/verif"))
}

fn usage() -> ! {
    eprintln!("usage: verif run <ID> quick|thorough | worker ... | replay <ID> <file> | corpus <ID> | selftest-dump <n> <seed> | list");
    std::process::exit(2)
}

fn main() {
    let args: Vec<String> = std::env::args().collect();
    if args.len() < 2 {
        usage();
    }
    let vd = verif_dir();
    match args[1].as_str() {
        "list" => {
            for p in props::all() {
                println!("{}", p.id());
            }
        }
        "run" => {
            if args.len() < 4 {
                usage();
            }
            let p = props::by_id(&args[2]).unwrap_or_else(|| usage());
            let code = engine::run_driver(p.as_ref(), Tier::parse(&args[3]), &vd);
            std::process::exit(code);
        }
        "worker" => {
            // worker <ID> <tier> <seed> <index> <cases> <out> <profile>
            if args.len() < 9 {
                usage();
            }
            let p = props::by_id(&args[2]).unwrap_or_else(|| usage());
            let wa = WorkerArgs {
                tier: Tier::parse(&args[3]),
                seed: args[4].parse().unwrap(),
                index: args[5].parse().unwrap(),
                cases: args[6].parse().unwrap(),
                out: PathBuf::from(&args[7]),
                profile: args[8].clone(),
            };
            let known = Known::load(&vd);
            std::process::exit(engine::run_worker(p.as_ref(), &known, &wa));
        }
        "replay" => {
            if args.len() < 4 {
                usage();
            }
            let p = props::by_id(&args[2]).unwrap_or_else(|| usage());
            engine::install_quiet_hook();
            let text = std::fs::read_to_string(&args[3]).unwrap_or_else(|e| {
                eprintln!("cannot read {}: {}", args[3], e);
                std::process::exit(2)
            });
            match engine::replay_text(p.as_ref(), &text) {
                Ok(info) => {
                    println!("replay {}: property held on this case (nontrivial={}, classes={:?})", p.id(), info.nontrivial, info.classes);
                    std::process::exit(0)
                }
                Err(m) => {
                    println!("VIOLATION property={} replay={}", p.id(), args[3]);
                    println!("  detail: {}", m);
                    std::process::exit(1)
                }
            }
        }
        "corpus" => {
            if args.len() < 3 {
                usage();
            }
            let p = props::by_id(&args[2]).unwrap_or_else(|| usage());
            let known = Known::load(&vd);
            let (n, fails) = engine::run_corpus(p.as_ref(), &known, &vd);
            for (f, c, m) in &fails {
                println!("CORPUS-FAIL\t{}\t{}\t{}", f, c, m.replace('\n', " ").replace('\t', " "));
            }
            eprintln!("corpus {}: {} cases, {} failures", p.id(), n, fails.len());
            std::process::exit(if fails.is_empty() { 0 } else { 1 });
        }
        "fuzz-export" => {
            // fuzz-export <ID|all> <dir> <n>: write proptest-generated cases of the property in the fuzz byte format
            let owner = args.get(2).map(|s| s.as_str()).unwrap_or("all");
            let dir = PathBuf::from(args.get(3).cloned().unwrap_or_else(|| "corpus-run".into()));
            let n: usize = args.get(4).and_then(|s| s.parse().ok()).unwrap_or(200);
            let _ = std::fs::create_dir_all(&dir);
            let allowed = verif::fuzzcodec::ops_of(if owner == "all" { None } else { Some(owner) });
            let mut written = 0;
            for p in props::all() {
                if owner != "all" && p.id() != owner {
                    continue;
                }
                if !allowed.iter().any(|&i| verif::fuzzcodec::OPS[i].owner == p.id()) {
                    continue;
                }
                let strat = p.strategy(Tier::Quick);
                let mut mine = 0;
                for (k, c) in engine::sample_values(&strat, 1 + written as u64, n * 6).into_iter().enumerate() {
                    if mine >= n {
                        break;
                    }
                    if let Some(b) = verif::fuzzcodec::encode(&c, &allowed) {
                        // only keep inputs that decode back to the same case
                        if verif::fuzzcodec::decode(&b, &allowed).as_ref() == Some(&c) {
                            let _ = std::fs::write(dir.join(format!("{}-{:05}", p.id(), k)), b);
                            written += 1;
                            mine += 1;
                        }
                    }
                }
            }
            println!("fuzz-export: {} seed inputs written to {}", written, dir.display());
        }
        "fuzz-decode" => {
            // fuzz-decode <ID|all> <file>: print owner and case text of a libFuzzer input
            let owner = args.get(2).map(|s| s.as_str()).unwrap_or("all");
            let data = std::fs::read(args.get(3).map(|s| s.as_str()).unwrap_or("")).unwrap_or_default();
            let allowed = verif::fuzzcodec::ops_of(if owner == "all" { None } else { Some(owner) });
            match verif::fuzzcodec::decode(&data, &allowed) {
                Some(c) => {
                    let o = props::owner_of_op(&c.op).map(|p| p.id()).unwrap_or("?");
                    println!("{}\t{}", o, c.to_text());
                }
                None => println!("?\t"),
            }
        }
        "minimise" => {
            // minimise <ID> <case file>: structural minimiser on a failing case; prints the minimal case text
            let p = props::by_id(&args[2]).unwrap_or_else(|| usage());
            engine::install_quiet_hook();
            let text = std::fs::read_to_string(&args[3]).unwrap_or_default();
            let line = text.lines().map(|l| l.trim()).find(|l| !l.is_empty() && !l.starts_with('#')).unwrap_or("").to_string();
            match nbcase::Case::from_text(&line) {
                Ok(c) => {
                    let fails = |c: &nbcase::Case| matches!(engine::catch(|| p.check(c)), Ok(Err(m)) if !m.starts_with("harness:"));
                    let m = if fails(&c) { engine::minimise(&c, &fails, 20_000) } else { c };
                    println!("{}", m.to_text());
                }
                Err(_) => println!("{}", line),
            }
        }
        "selftest-dump" => {
            let n: usize = args.get(2).and_then(|s| s.parse().ok()).unwrap_or(1000);
            let seed: u64 = args.get(3).and_then(|s| s.parse().ok()).unwrap_or(0);
            verif::refint_selftest::dump(n, seed);
        }
        _ => usage(),
    }
}
