use std::path::PathBuf;
use verif::engine::{self, Known, Tier, WorkerArgs};
use verif::props;

fn verif_dir() -> PathBuf {
    std::env::var("VERIF_DIR")
        .map(PathBuf::from)
        .unwrap_or_else(|_| PathBuf::from("/verif"))
}

fn usage() -> ! {
    eprintln!("usage: verif run <ID> quick|thorough | worker ... | replay <ID> <file> | corpus <ID> | selftest-dump <n> <seed> | list");
    std::process::exit(2)
}

fn main() {
    let args: Vec<String> = std::env::args().collect();
    if args.len() < 2 {
        usage();
    }
    let vd = verif_dir();
    match args[1].as_str() {
        "list" => {
            for p in props::all() {
                println!("{}", p.id());
            }
        }
        "run" => {
            if args.len() < 4 {
                usage();
            }
            let p = props::by_id(&args[2]).unwrap_or_else(|| usage());
            let code = engine::run_driver(p.as_ref(), Tier::parse(&args[3]), &vd);
            std::process::exit(code);
        }
        "worker" => {
            // worker <ID> <tier> <seed> <index> <cases> <out> <profile>
            if args.len() < 9 {
                usage();
            }
            let p = props::by_id(&args[2]).unwrap_or_else(|| usage());
            let wa = WorkerArgs {
                tier: Tier::parse(&args[3]),
                seed: args[4].parse().unwrap(),
                index: args[5].parse().unwrap(),
                cases: args[6].parse().unwrap(),
                out: PathBuf::from(&args[7]),
                profile: args[8].clone(),
            };
            let known = Known::load(&vd);
            std::process::exit(engine::run_worker(p.as_ref(), &known, &wa));
        }
        "replay" => {
            if args.len() < 4 {
                usage();
            }
            let p = props::by_id(&args[2]).unwrap_or_else(|| usage());
            engine::install_quiet_hook();
            let text = std::fs::read_to_string(&args[3]).unwrap_or_else(|e| {
                eprintln!("cannot read {}: {}", args[3], e);
                std::process::exit(2)
            });
            match engine::replay_text(p.as_ref(), &text) {
                Ok(info) => {
                    println!("replay {}: property held on this case (nontrivial={}, classes={:?})", p.id(), info.nontrivial, info.classes);
                    std::process::exit(0)
                }
                Err(m) => {
                    println!("VIOLATION property={} replay={}", p.id(), args[3]);
                    println!("  detail: {}", m);
                    std::process::exit(1)
                }
            }
        }
        "corpus" => {
            if args.len() < 3 {
                usage();
            }
            let p = props::by_id(&args[2]).unwrap_or_else(|| usage());
            let known = Known::load(&vd);
            let (n, fails) = engine::run_corpus(p.as_ref(), &known, &vd);
            for (f, c, m) in &fails {
                println!("CORPUS-FAIL\t{}\t{}\t{}", f, c, m.replace('\n', " ").replace('\t', " "));
            }
            eprintln!("corpus {}: {} cases, {} failures", p.id(), n, fails.len());
            std::process::exit(if fails.is_empty() { 0 } else { 1 });
        }
        "selftest-dump" => {
            let n: usize = args.get(2).and_then(|s| s.parse().ok()).unwrap_or(1000);
            let seed: u64 = args.get(3).and_then(|s| s.parse().ok()).unwrap_or(0);
            verif::refint_selftest::dump(n, seed);
        }
        _ => usage(),
    }
}
