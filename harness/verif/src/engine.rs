//! The engine shared by all properties: worker (proptest runner + shrinking + minimiser),
//! driver (process fan-out, crash/hang attribution, corpus tier, evidence), replay.

use crate::json::J;
use nbcase::{Arg, Case};
use num_bigint::verif_probe as vp;
use proptest::strategy::{BoxedStrategy, Strategy, ValueTree};
use proptest::test_runner::{Config, RngAlgorithm, TestCaseError, TestError, TestRng, TestRunner};
use std::cell::{Cell, RefCell};
use std::collections::{BTreeMap, HashSet};
use std::io::Write;
use std::os::unix::fs::FileExt;
use std::os::unix::process::ExitStatusExt;
use std::path::{Path, PathBuf};
use std::process::{Command, Stdio};
use std::sync::atomic::{AtomicU64, Ordering};
use std::sync::Mutex;
use std::time::{Duration, Instant};

#[derive(Clone, Copy, Debug, PartialEq, Eq)]
pub enum Tier {
    Quick,
    Thorough,
}
impl Tier {
    pub fn name(self) -> &'static str {
        match self {
            Tier::Quick => "quick",
            Tier::Thorough => "thorough",
        }
    }
    pub fn parse(s: &str) -> Tier {
        match s {
            "quick" => Tier::Quick,
            "thorough" => Tier::Thorough,
            _ => {
                eprintln!("unknown tier {}", s);
                std::process::exit(2)
            }
        }
    }
}

#[derive(Clone, Debug, Default)]
pub struct Info {
    pub nontrivial: bool,
    pub classes: Vec<&'static str>,
}
impl Info {
    pub fn new(nontrivial: bool) -> Info {
        Info {
            nontrivial,
            classes: vec![],
        }
    }
    pub fn class(mut self, c: &'static str) -> Info {
        self.classes.push(c);
        self
    }
    pub fn class_if(mut self, cond: bool, c: &'static str) -> Info {
        if cond {
            self.classes.push(c);
        }
        self
    }
}

pub type Verdict = Result<Info, String>;

#[derive(Clone, Copy, Debug)]
pub struct Budget {
    /// total cases in the release profile (split over workers)
    pub release: u64,
    /// total cases in the dbg profile (debug assertions + overflow checks)
    pub dbg: u64,
    pub workers: usize,
}

pub trait Property: Sync + Send {
    fn id(&self) -> &'static str;
    fn rule(&self) -> &'static str;
    fn technique(&self) -> &'static str {
        "property-based testing (proptest) against an independent reference integer"
    }
    fn strategy(&self, tier: Tier) -> BoxedStrategy<Case>;
    fn check(&self, case: &Case) -> Verdict;
    fn budget(&self, tier: Tier) -> Budget;
    fn probes(&self) -> Vec<vp::Probe> {
        vec![]
    }
    fn assumptions(&self) -> Vec<String> {
        vec![]
    }
    /// signature used to match `known:` lines of known_findings.txt: the operation plus the failing call
    /// site / form as named at the start of the failure message, with numbers masked - specific enough that a
    /// different violation of the same property (another form, another kind of failure) is still reported
    fn signature(&self, case: &Case, msg: &str) -> String {
        default_signature(case, msg)
    }
    /// optional deterministic phase run once by the driver (e.g. build matrix); returns extra
    /// coverage keys, or a failure (replay text, message).
    fn driver_phase(&self, _ctx: &DriverCtx) -> Result<Vec<(String, J)>, (String, String)> {
        Ok(vec![])
    }
    /// per-case wall-clock budget before the watchdog declares a hang (seconds)
    fn hang_budget_s(&self, tier: Tier) -> u64 {
        match tier {
            Tier::Quick => 60,
            Tier::Thorough => 180,
        }
    }
    /// whether a confirmed hang is a violation of this property (only C14)
    fn hang_is_violation(&self) -> bool {
        false
    }
}

pub fn default_signature(case: &Case, msg: &str) -> String {
    // the call site / form is the part of the message before the first separator
    let mut end = msg.len();
    for sep in [": ", " returned", " panicked", " = ", " is not", " differs"] {
        if let Some(i) = msg.find(sep) {
            end = end.min(i);
        }
    }
    let msg = &msg[..end];
    let mut out = String::new();
    let mut prev_hash = false;
    for ch in msg.chars().take(160) {
        let c = if ch.is_ascii_digit() || (ch.is_ascii_hexdigit() && prev_hash) {
            '#'
        } else if ch.is_whitespace() {
            '_'
        } else {
            ch
        };
        if c == '#' {
            if !prev_hash {
                out.push('#');
            }
            prev_hash = true;
        } else {
            prev_hash = false;
            out.push(c);
        }
        if out.len() >= 90 {
            break;
        }
    }
    format!("{}:{}", case.op, out)
}

pub struct DriverCtx {
    pub tier: Tier,
    pub seed: u64,
    pub verif_dir: PathBuf,
    pub work_dir: PathBuf,
}

// ------------------------------------------------------------------------------------------
// panic capture

thread_local! {
    static QUIET: Cell<bool> = Cell::new(false);
}

pub fn install_quiet_hook() {
    let prev = std::panic::take_hook();
    std::panic::set_hook(Box::new(move |info| {
        if !QUIET.with(|q| q.get()) {
            prev(info);
        }
    }));
}

/// Run a library call, capturing a panic as Err(message).
pub fn catch<T>(f: impl FnOnce() -> T) -> Result<T, String> {
    let was = QUIET.with(|q| q.replace(true));
    let r = std::panic::catch_unwind(std::panic::AssertUnwindSafe(f));
    QUIET.with(|q| q.set(was));
    r.map_err(|e| {
        if let Some(s) = e.downcast_ref::<&str>() {
            s.to_string()
        } else if let Some(s) = e.downcast_ref::<String>() {
            s.clone()
        } else {
            "<non-string panic>".to_string()
        }
    })
}

/// The call must return (not panic); a panic is a violation described by `what`.
pub fn must_return<T>(what: &str, f: impl FnOnce() -> T) -> Result<T, String> {
    catch(f).map_err(|m| format!("{} panicked: {:?}", what, m))
}

/// The call must panic; returning is a violation.
pub fn must_panic<T: std::fmt::Debug>(what: &str, f: impl FnOnce() -> T) -> Result<(), String> {
    match catch(f) {
        Err(_) => Ok(()),
        Ok(v) => Err(format!("{} returned {:?} where a panic is documented", what, trunc(&format!("{:?}", v), 200))),
    }
}

pub fn trunc(s: &str, n: usize) -> String {
    if s.len() <= n {
        s.to_string()
    } else {
        let mut e = n;
        while !s.is_char_boundary(e) {
            e -= 1;
        }
        format!("{}...<{} bytes>", &s[..e], s.len())
    }
}

// ------------------------------------------------------------------------------------------
// known findings

#[derive(Clone, Debug, Default)]
pub struct Known {
    /// (property, signature, description)
    pub known: Vec<(String, String, String)>,
}

impl Known {
    pub fn load(verif_dir: &Path) -> Known {
        let mut k = Known::default();
        let p = verif_dir.join("known_findings.txt");
        if let Ok(t) = std::fs::read_to_string(&p) {
            for line in t.lines() {
                let line = line.trim();
                if let Some(rest) = line.strip_prefix("known:") {
                    let rest = rest.trim();
                    let mut prop = String::new();
                    let mut sig = String::new();
                    let mut desc = vec![];
                    for tok in rest.split_whitespace() {
                        if let Some(v) = tok.strip_prefix("property=") {
                            prop = v.to_string();
                        } else if let Some(v) = tok.strip_prefix("sig=") {
                            sig = v.to_string();
                        } else {
                            desc.push(tok);
                        }
                    }
                    if !prop.is_empty() && !sig.is_empty() {
                        k.known.push((prop, sig, desc.join(" ")));
                    }
                }
            }
        }
        k
    }
    pub fn matches(&self, prop: &str, sig: &str) -> Option<&(String, String, String)> {
        self.known.iter().find(|(p, s, _)| p == prop && s == sig)
    }
}

// ------------------------------------------------------------------------------------------
// structural minimiser (second shrinking stage, after proptest's own)

fn arg_candidates(a: &Arg, out: &mut Vec<Arg>, depth: usize) {
    match a {
        Arg::N(v) => {
            for c in digit_candidates(v) {
                out.push(Arg::N(c));
            }
        }
        Arg::Z(s, v) => {
            if *s {
                out.push(Arg::Z(false, v.clone()));
            }
            for c in digit_candidates(v) {
                out.push(Arg::Z(*s, c));
            }
        }
        Arg::I(x) => {
            for c in [0i128, 1, -1, x / 2, x - x.signum()] {
                if c != *x && c.unsigned_abs() <= x.unsigned_abs() {
                    out.push(Arg::I(c));
                }
            }
        }
        Arg::U(x) => {
            for c in [0u128, 1, x / 2, x.saturating_sub(1)] {
                if c < *x {
                    out.push(Arg::U(c));
                }
            }
        }
        Arg::B(v) => {
            for i in 0..v.len().min(64) {
                let mut c = v.clone();
                c.remove(i);
                out.push(Arg::B(c));
            }
            for i in 0..v.len().min(64) {
                if v[i] != 0 {
                    let mut c = v.clone();
                    c[i] = 0;
                    out.push(Arg::B(c));
                }
            }
        }
        Arg::S(s) => {
            let chars: Vec<char> = s.chars().collect();
            for i in 0..chars.len().min(64) {
                let mut c = chars.clone();
                c.remove(i);
                out.push(Arg::S(c.into_iter().collect()));
            }
        }
        Arg::L(v) => {
            // elements of a top-level list (a history) may be dropped; a nested list is a record
            // with a fixed shape, so only its fields are simplified
            if depth == 0 {
                for i in 0..v.len().min(64) {
                    let mut c = v.clone();
                    c.remove(i);
                    out.push(Arg::L(c));
                }
            }
            for i in 0..v.len().min(32) {
                let mut sub = vec![];
                arg_candidates(&v[i], &mut sub, depth + 1);
                for s in sub.into_iter().take(40) {
                    let mut c = v.clone();
                    c[i] = s;
                    out.push(Arg::L(c));
                }
            }
        }
    }
}

fn digit_candidates(v: &[u64]) -> Vec<Vec<u64>> {
    let mut out = vec![];
    let n = v.len();
    if n == 0 {
        return out;
    }
    // halve, drop top, drop low
    if n > 1 {
        out.push(v[..n / 2].to_vec());
        out.push(v[n / 2..].to_vec());
        out.push(v[..n - 1].to_vec());
        out.push(v[1..].to_vec());
    } else {
        out.push(vec![]);
    }
    let step = (n / 48).max(1);
    let mut i = 0;
    while i < n {
        if n > 1 {
            let mut c = v.to_vec();
            c.remove(i);
            out.push(c);
        }
        for r in [0u64, 1, u64::MAX] {
            if v[i] != r && (r == 0 || v[i] != 1) {
                let mut c = v.to_vec();
                c[i] = r;
                out.push(c);
            }
        }
        if v[i] > 1 && v[i] != u64::MAX {
            let mut c = v.to_vec();
            c[i] = v[i] >> 1;
            out.push(c);
        }
        i += step;
    }
    out
}

fn case_weight(c: &Case) -> usize {
    fn w(a: &Arg) -> usize {
        match a {
            Arg::N(v) | Arg::Z(_, v) => {
                1 + v.len() * 70
                    + v.iter()
                        .map(|d| {
                            if *d == 0 {
                                0
                            } else if *d == 1 {
                                1
                            } else if *d == u64::MAX {
                                2
                            } else {
                                3 + (64 - d.leading_zeros() as usize)
                            }
                        })
                        .sum::<usize>()
            }
            Arg::I(x) => 1 + (128 - x.unsigned_abs().leading_zeros() as usize),
            Arg::U(x) => 1 + (128 - x.leading_zeros() as usize),
            Arg::B(v) => 1 + v.len() * 9 + v.iter().filter(|b| **b != 0).count(),
            Arg::S(s) => 1 + s.len() * 9,
            Arg::L(v) => 2 + v.iter().map(w).sum::<usize>() + v.len() * 5,
        }
    }
    c.args.iter().map(w).sum()
}

/// Greedy minimiser: accept any candidate that still fails (by `fails`) and is lighter.
pub fn minimise(case: &Case, fails: &dyn Fn(&Case) -> bool, max_steps: usize) -> Case {
    let mut cur = case.clone();
    let mut steps = 0;
    'outer: loop {
        let wcur = case_weight(&cur);
        for ai in 0..cur.args.len() {
            let mut cands = vec![];
            arg_candidates(&cur.args[ai], &mut cands, 0);
            for cand in cands {
                steps += 1;
                if steps > max_steps {
                    break 'outer;
                }
                let mut c = cur.clone();
                c.args[ai] = cand;
                if case_weight(&c) < wcur && fails(&c) {
                    cur = c;
                    continue 'outer;
                }
            }
        }
        break;
    }
    cur
}

// ------------------------------------------------------------------------------------------
// worker

/// resident-set budget per worker: a case that drives the process above this is stopped and
/// reported as inconclusive (never as a verdict)
const MEM_BUDGET: u64 = 6 << 30;

fn rss_bytes() -> u64 {
    std::fs::read_to_string("/proc/self/statm")
        .ok()
        .and_then(|t| t.split_whitespace().nth(1).and_then(|x| x.parse::<u64>().ok()))
        .map_or(0, |pages| pages * 4096)
}

static CASE_SEQ: AtomicU64 = AtomicU64::new(0);
static CURRENT: Mutex<Option<Case>> = Mutex::new(None);

pub struct WorkerArgs {
    pub tier: Tier,
    pub seed: u64,
    pub index: usize,
    pub cases: u64,
    pub out: PathBuf,
    pub profile: String,
}

fn derive_seed(seed: u64, id: &str, index: usize, profile: &str) -> [u8; 32] {
    let mut out = [0u8; 32];
    let mut h: u64 = 0xcbf29ce484222325 ^ seed.wrapping_mul(0x9E3779B97F4A7C15);
    let mut feed = |b: u8, h: &mut u64| {
        *h ^= b as u64;
        *h = h.wrapping_mul(0x100000001b3);
    };
    for b in id.bytes().chain(profile.bytes()) {
        feed(b, &mut h);
    }
    for b in (index as u64).to_le_bytes() {
        feed(b, &mut h);
    }
    for b in seed.to_le_bytes() {
        feed(b, &mut h);
    }
    for (i, ch) in out.chunks_mut(8).enumerate() {
        let mut z = h.wrapping_add((i as u64 + 1).wrapping_mul(0x9E3779B97F4A7C15));
        z = (z ^ (z >> 30)).wrapping_mul(0xBF58476D1CE4E5B9);
        z = (z ^ (z >> 27)).wrapping_mul(0x94D049BB133111EB);
        z ^= z >> 31;
        ch.copy_from_slice(&z.to_le_bytes());
    }
    out
}

struct Stats {
    evaluations: u64,
    nontrivial: u64,
    classes: BTreeMap<&'static str, u64>,
    hashes: HashSet<u64>,
    hash_overflow: bool,
    samples: Vec<String>,
    known_hits: BTreeMap<String, u64>,
    stopped: bool,
}

const HASH_CAP: usize = 3_000_000;

pub fn run_worker(prop: &dyn Property, known: &Known, wa: &WorkerArgs) -> i32 {
    install_quiet_hook();
    let budget_s = prop.hang_budget_s(wa.tier);
    let hang_path = wa.out.with_extension("hang");
    // watchdog
    {
        let hang_path = hang_path.clone();
        std::thread::spawn(move || {
            let mut last = CASE_SEQ.load(Ordering::Relaxed);
            let mut since = Instant::now();
            loop {
                std::thread::sleep(Duration::from_millis(500));
                let now = CASE_SEQ.load(Ordering::Relaxed);
                if now != last {
                    last = now;
                    since = Instant::now();
                } else if now != 0 && rss_bytes() > MEM_BUDGET {
                    let text = CURRENT
                        .lock()
                        .ok()
                        .and_then(|g| g.as_ref().map(|c| c.to_text()))
                        .unwrap_or_default();
                    let _ = std::fs::write(&hang_path, text);
                    std::process::exit(4);
                } else if now != 0 && since.elapsed().as_secs() >= budget_s {
                    let text = CURRENT
                        .lock()
                        .ok()
                        .and_then(|g| g.as_ref().map(|c| c.to_text()))
                        .unwrap_or_default();
                    let _ = std::fs::write(&hang_path, text);
                    std::process::exit(3);
                }
            }
        });
    }
    let journal = std::env::var("VERIF_JOURNAL").ok().map(|p| {
        std::fs::OpenOptions::new()
            .create(true)
            .write(true)
            .truncate(true)
            .open(p)
            .expect("journal open")
    });

    let stats = RefCell::new(Stats {
        evaluations: 0,
        nontrivial: 0,
        classes: BTreeMap::new(),
        hashes: HashSet::new(),
        hash_overflow: false,
        samples: vec![],
        known_hits: BTreeMap::new(),
        stopped: false,
    });
    let sample_every = (wa.cases / 6).max(1);
    let probes0 = vp::snapshot();

    let config = Config {
        cases: wa.cases.min(u32::MAX as u64) as u32,
        failure_persistence: None,
        max_shrink_iters: 20_000,
        max_shrink_time: 0,
        max_global_rejects: 1_000_000,
        verbose: 0,
        ..Config::default()
    };
    let rng = TestRng::from_seed(
        RngAlgorithm::ChaCha,
        &derive_seed(wa.seed, prop.id(), wa.index, &wa.profile),
    );
    let mut runner = TestRunner::new_with_rng(config, rng);
    let strategy = prop.strategy(wa.tier);

    let eval = |case: &Case| -> Verdict {
        let verdict = match catch(|| prop.check(case)) {
            Ok(v) => v,
            Err(p) => Err(format!("operation panicked outside a documented failure case: {}", p)),
        };
        match verdict {
            Ok(i) => Ok(i),
            Err(msg) => {
                let sig = prop.signature(case, &msg);
                if known.matches(prop.id(), &sig).is_some() {
                    let mut st = stats.borrow_mut();
                    if !st.stopped {
                        *st.known_hits.entry(sig).or_insert(0) += 1;
                    }
                    Ok(Info::new(false).class("excluded_known_finding"))
                } else {
                    Err(msg)
                }
            }
        }
    };

    let result = runner.run(&strategy, |case| {
        CASE_SEQ.fetch_add(1, Ordering::Relaxed);
        if let Ok(mut g) = CURRENT.lock() {
            *g = Some(case.clone());
        }
        if let Some(j) = &journal {
            let mut t = case.to_text();
            t.push('\n');
            let _ = j.write_all_at(t.as_bytes(), 0);
        }
        let mut v = eval(&case);
        // a check may refuse a case outside its generated domain (only reachable while shrinking);
        // such a case is neither a pass nor a failure of the property
        if let Err(m) = &v {
            if m.starts_with("harness:") {
                v = Ok(Info::new(false).class("rejected_outside_generated_domain"));
            }
        }
        let mut st = stats.borrow_mut();
        if st.stopped {
            // shrinking re-executions are not counted
            return v.map(|_| ()).map_err(TestCaseError::fail);
        }
        st.evaluations += 1;
        match v {
            Ok(info) => {
                for c in &info.classes {
                    *st.classes.entry(c).or_insert(0) += 1;
                }
                if info.nontrivial {
                    st.nontrivial += 1;
                    if st.hashes.len() < HASH_CAP {
                        st.hashes.insert(case.hash64());
                    } else {
                        st.hash_overflow = true;
                    }
                    if st.samples.len() < 2
                        || (st.evaluations % sample_every == 0 && st.samples.len() < 10)
                    {
                        st.samples.push(trunc(&case.to_text(), 600));
                    }
                }
                Ok(())
            }
            Err(msg) => {
                st.stopped = true;
                Err(TestCaseError::fail(msg))
            }
        }
    });

    let mut failure: Option<(Case, String)> = None;
    match result {
        Ok(()) => {}
        Err(TestError::Fail(_reason, case)) => {
            // second stage: structural minimiser on the Case
            let fails = |c: &Case| -> bool {
                CASE_SEQ.fetch_add(1, Ordering::Relaxed);
                if let Ok(mut g) = CURRENT.lock() {
                    *g = Some(c.clone());
                }
                matches!(catch(|| eval(c)), Ok(Err(m)) if !m.starts_with("harness:"))
            };
            let min = if fails(&case) {
                minimise(&case, &fails, 20_000)
            } else {
                case.clone()
            };
            let msg = match catch(|| eval(&min)) {
                Ok(Err(m)) => m,
                Ok(Ok(_)) => "failure did not reproduce after minimisation (flaky check?)".into(),
                Err(p) => format!("harness panic: {}", p),
            };
            failure = Some((min, msg));
        }
        Err(TestError::Abort(reason)) => {
            eprintln!("worker {} aborted: {}", wa.index, reason);
            return 2;
        }
    }

    // write result file
    let st = stats.borrow();
    let probes1 = vp::snapshot();
    let mut out = String::new();
    out.push_str(&format!("evaluations={}\n", st.evaluations));
    out.push_str(&format!("nontrivial={}\n", st.nontrivial));
    out.push_str(&format!("hash_overflow={}\n", st.hash_overflow as u8));
    for (c, n) in &st.classes {
        out.push_str(&format!("class {} {}\n", c, n));
    }
    for p in prop.probes() {
        let i = p as usize;
        out.push_str(&format!("probe {} {}\n", vp::NAMES[i], probes1[i] - probes0[i]));
    }
    for s in &st.samples {
        out.push_str(&format!("sample {}\n", s));
    }
    for (k, n) in &st.known_hits {
        out.push_str(&format!("known {} {}\n", k, n));
    }
    if let Some((c, m)) = &failure {
        out.push_str(&format!("failure_msg {}\n", m.replace('\n', " ")));
        out.push_str(&format!("failure_case {}\n", c.to_text()));
    }
    std::fs::write(&wa.out, out).expect("write worker result");
    let mut hb = Vec::with_capacity(st.hashes.len() * 8);
    for h in &st.hashes {
        hb.extend_from_slice(&h.to_le_bytes());
    }
    std::fs::write(wa.out.with_extension("hashes"), hb).expect("write hashes");
    0
}

// ------------------------------------------------------------------------------------------
// replay / corpus

/// Replay one case file through the property's check.  Returns Ok(Info) or Err(msg).
pub fn replay_text(prop: &dyn Property, text: &str) -> Verdict {
    let case = Case::from_text(text).map_err(|e| format!("unparsable case: {}", e))?;
    match catch(|| prop.check(&case)) {
        Ok(v) => v,
        Err(p) => Err(format!("harness panic during replay: {}", p)),
    }
}

pub fn corpus_files(verif_dir: &Path, id: &str) -> Vec<PathBuf> {
    let mut v = vec![];
    if let Ok(rd) = std::fs::read_dir(verif_dir.join("corpus").join(id)) {
        for e in rd.flatten() {
            let p = e.path();
            if p.extension().map_or(false, |x| x == "case") {
                v.push(p);
            }
        }
    }
    v.sort();
    v
}

/// `verif corpus <ID>`: replay every corpus line; print `CORPUS-FAIL <file>:<line> <msg>` lines.
pub fn run_corpus(prop: &dyn Property, known: &Known, verif_dir: &Path) -> (u64, Vec<(String, String, String)>) {
    install_quiet_hook();
    let mut n = 0;
    let mut fails = vec![];
    for f in corpus_files(verif_dir, prop.id()) {
        let text = std::fs::read_to_string(&f).unwrap_or_default();
        for line in text.lines() {
            let line = line.trim();
            if line.is_empty() || line.starts_with('#') {
                continue;
            }
            n += 1;
            if let Err(m) = replay_text(prop, line) {
                let sig = Case::from_text(line)
                    .map(|c| prop.signature(&c, &m))
                    .unwrap_or_default();
                if known.matches(prop.id(), &sig).is_none() {
                    fails.push((f.display().to_string(), line.to_string(), m));
                }
            }
        }
    }
    (n, fails)
}

// ------------------------------------------------------------------------------------------
// driver

struct WorkerOut {
    evaluations: u64,
    nontrivial: u64,
    hash_overflow: bool,
    classes: BTreeMap<String, u64>,
    probes: BTreeMap<String, u64>,
    samples: Vec<String>,
    known: BTreeMap<String, u64>,
    failure: Option<(String, String)>, // (case text, msg)
}

fn parse_worker_out(p: &Path) -> Option<WorkerOut> {
    let t = std::fs::read_to_string(p).ok()?;
    let mut w = WorkerOut {
        evaluations: 0,
        nontrivial: 0,
        hash_overflow: false,
        classes: BTreeMap::new(),
        probes: BTreeMap::new(),
        samples: vec![],
        known: BTreeMap::new(),
        failure: None,
    };
    let mut fmsg = None;
    for line in t.lines() {
        if let Some(v) = line.strip_prefix("evaluations=") {
            w.evaluations = v.parse().ok()?;
        } else if let Some(v) = line.strip_prefix("nontrivial=") {
            w.nontrivial = v.parse().ok()?;
        } else if let Some(v) = line.strip_prefix("hash_overflow=") {
            w.hash_overflow = v == "1";
        } else if let Some(v) = line.strip_prefix("class ") {
            let (k, n) = v.rsplit_once(' ')?;
            w.classes.insert(k.to_string(), n.parse().ok()?);
        } else if let Some(v) = line.strip_prefix("probe ") {
            let mut it = v.split(' ');
            let k = it.next()?.to_string();
            w.probes.insert(k, it.next()?.parse().ok()?);
        } else if let Some(v) = line.strip_prefix("sample ") {
            w.samples.push(v.to_string());
        } else if let Some(v) = line.strip_prefix("known ") {
            let (k, n) = v.rsplit_once(' ')?;
            w.known.insert(k.to_string(), n.parse().ok()?);
        } else if let Some(v) = line.strip_prefix("failure_msg ") {
            fmsg = Some(v.to_string());
        } else if let Some(v) = line.strip_prefix("failure_case ") {
            w.failure = Some((v.to_string(), fmsg.clone().unwrap_or_default()));
        }
    }
    Some(w)
}

pub struct Violation {
    pub case_text: String,
    pub msg: String,
    pub origin: String,
}

fn fnv(s: &str) -> u64 {
    let mut h: u64 = 0xcbf29ce484222325;
    for b in s.bytes() {
        h ^= b as u64;
        h = h.wrapping_mul(0x100000001b3);
    }
    h
}

fn write_replay(verif_dir: &Path, id: &str, v: &Violation) -> PathBuf {
    let dir = verif_dir.join("replays").join(id);
    let _ = std::fs::create_dir_all(&dir);
    let p = dir.join(format!("{:016x}.case", fnv(&v.case_text)));
    let body = format!(
        "# property {}\n# origin {}\n# failure: {}\n{}\n",
        id,
        v.origin,
        v.msg.replace('\n', " "),
        v.case_text
    );
    let _ = std::fs::write(&p, body);
    p
}

/// Structural minimisation of a case that kills the process (signal): each candidate is replayed in a
/// fresh child process; a candidate is kept if the child also dies from a signal.  Bounded by
/// candidate count and wall clock.
fn minimise_crash(exe: &Path, id: &str, text: &str, verif_dir: &Path, work: &Path) -> String {
    let case = match Case::from_text(text) {
        Ok(c) => c,
        Err(_) => return text.to_string(),
    };
    let file = work.join("crashmin.case");
    let t0 = Instant::now();
    let dies = |c: &Case| -> bool {
        if t0.elapsed().as_secs() > 90 {
            return false;
        }
        if std::fs::write(&file, c.to_text()).is_err() {
            return false;
        }
        let child = Command::new(exe)
            .arg("replay")
            .arg(id)
            .arg(&file)
            .env("VERIF_DIR", verif_dir)
            .stdin(Stdio::null())
            .stdout(Stdio::null())
            .stderr(Stdio::null())
            .spawn();
        let mut child = match child {
            Ok(c) => c,
            Err(_) => return false,
        };
        let t1 = Instant::now();
        loop {
            match child.try_wait() {
                Ok(Some(st)) => return st.signal().is_some(),
                Ok(None) => {
                    if t1.elapsed().as_secs() > 15 {
                        let _ = child.kill();
                        let _ = child.wait();
                        return false;
                    }
                    std::thread::sleep(Duration::from_millis(2));
                }
                Err(_) => return false,
            }
        }
    };
    if !dies(&case) {
        return text.to_string();
    }
    minimise(&case, &dies, 600).to_text()
}

/// Exit codes of the driver: 0 held, 1 violation, 2 inconclusive.
pub fn run_driver(prop: &dyn Property, tier: Tier, verif_dir: &Path) -> i32 {
    let t0 = Instant::now();
    let id = prop.id();
    let seed: u64 = std::env::var("VERIF_SEED")
        .ok()
        .and_then(|s| s.trim().parse::<i64>().ok().map(|x| x as u64).or_else(|| s.trim().parse::<u64>().ok()))
        .unwrap_or(0);
    let work = verif_dir.join("work").join(id);
    let _ = std::fs::remove_dir_all(&work);
    std::fs::create_dir_all(&work).expect("work dir");
    let known = Known::load(verif_dir);
    let exe_release = std::env::current_exe().expect("current exe");
    let exe_dbg = std::env::var("VERIF_DBG_EXE").map(PathBuf::from).ok();
    let budget = prop.budget(tier);
    let mut violations: Vec<Violation> = vec![];
    let mut inconclusive: Vec<String> = vec![];

    // ---- corpus tier (both profiles) ----
    let (corpus_n, fails) = run_corpus(prop, &known, verif_dir);
    for (f, line, m) in fails {
        violations.push(Violation {
            case_text: line,
            msg: m,
            origin: format!("corpus {} (release)", f),
        });
    }
    if let Some(d) = &exe_dbg {
        if budget.dbg > 0 {
            let o = Command::new(d)
                .arg("corpus")
                .arg(id)
                .env("VERIF_DIR", verif_dir)
                .output();
            match o {
                Ok(o) => {
                    let s = String::from_utf8_lossy(&o.stdout);
                    for l in s.lines() {
                        if let Some(rest) = l.strip_prefix("CORPUS-FAIL\t") {
                            let mut it = rest.splitn(3, '\t');
                            let f = it.next().unwrap_or("");
                            let c = it.next().unwrap_or("");
                            let m = it.next().unwrap_or("");
                            violations.push(Violation {
                                case_text: c.to_string(),
                                msg: m.to_string(),
                                origin: format!("corpus {} (dbg)", f),
                            });
                        }
                    }
                    if !o.status.success() && o.status.code() != Some(1) {
                        inconclusive.push(format!("dbg corpus run ended with {:?}", o.status));
                    }
                }
                Err(e) => inconclusive.push(format!("cannot spawn dbg corpus run: {}", e)),
            }
        }
    }

    // ---- driver phase ----
    let ctx = DriverCtx {
        tier,
        seed,
        verif_dir: verif_dir.to_path_buf(),
        work_dir: work.clone(),
    };
    let mut extra: Vec<(String, J)> = vec![];
    match prop.driver_phase(&ctx) {
        Ok(e) => extra = e,
        Err((case_text, msg)) => violations.push(Violation {
            case_text,
            msg,
            origin: "driver phase".into(),
        }),
    }

    // ---- workers ----
    struct Job {
        profile: &'static str,
        exe: PathBuf,
        index: usize,
        cases: u64,
        out: PathBuf,
    }
    let mut jobs = vec![];
    let w = budget.workers.max(1);
    let split = |total: u64, profile: &'static str, exe: &Path, jobs: &mut Vec<Job>| {
        if total == 0 {
            return;
        }
        let nw = w.min(total as usize).max(1);
        for i in 0..nw {
            let cases = total / nw as u64 + if (i as u64) < total % nw as u64 { 1 } else { 0 };
            jobs.push(Job {
                profile,
                exe: exe.to_path_buf(),
                index: i,
                cases,
                out: work.join(format!("{}.{}.out", profile, i)),
            });
        }
    };
    split(budget.release, "release", &exe_release, &mut jobs);
    match &exe_dbg {
        Some(d) => split(budget.dbg, "dbg", d, &mut jobs),
        None => {
            if budget.dbg > 0 {
                inconclusive.push("VERIF_DBG_EXE not set: dbg profile not run".into());
            }
        }
    }
    let spawn = |j: &Job, journal: Option<&Path>| {
        let mut c = Command::new(&j.exe);
        c.arg("worker")
            .arg(id)
            .arg(tier.name())
            .arg(seed.to_string())
            .arg(j.index.to_string())
            .arg(j.cases.to_string())
            .arg(&j.out)
            .arg(j.profile)
            .env("VERIF_DIR", verif_dir)
            .stdin(Stdio::null());
        if let Some(p) = journal {
            c.env("VERIF_JOURNAL", p);
        }
        c.spawn()
    };
    // run with at most 16 concurrent
    let maxc = 16usize;
    let mut pending: Vec<usize> = (0..jobs.len()).rev().collect();
    let mut running: Vec<(usize, std::process::Child)> = vec![];
    let mut statuses: Vec<Option<std::process::ExitStatus>> = (0..jobs.len()).map(|_| None).collect();
    while !pending.is_empty() || !running.is_empty() {
        while running.len() < maxc && !pending.is_empty() {
            let ji = pending.pop().unwrap();
            match spawn(&jobs[ji], None) {
                Ok(ch) => running.push((ji, ch)),
                Err(e) => {
                    inconclusive.push(format!("spawn failed: {}", e));
                }
            }
        }
        let mut i = 0;
        let mut progressed = false;
        while i < running.len() {
            match running[i].1.try_wait() {
                Ok(Some(st)) => {
                    statuses[running[i].0] = Some(st);
                    running.swap_remove(i);
                    progressed = true;
                }
                Ok(None) => i += 1,
                Err(e) => {
                    inconclusive.push(format!("wait failed: {}", e));
                    running.swap_remove(i);
                }
            }
        }
        if !progressed {
            std::thread::sleep(Duration::from_millis(20));
        }
    }

    // ---- collect ----
    let mut evaluations = 0u64;
    let mut eval_by_profile: BTreeMap<String, u64> = BTreeMap::new();
    let mut nontrivial_total = 0u64;
    let mut classes: BTreeMap<String, u64> = BTreeMap::new();
    let mut probes: BTreeMap<String, u64> = BTreeMap::new();
    let mut samples: Vec<String> = vec![];
    let mut known_hits: BTreeMap<String, u64> = BTreeMap::new();
    let mut hashes: Vec<u64> = vec![];
    let mut hash_overflow = false;
    let mut hang_seen: HashSet<String> = HashSet::new();
    for (ji, j) in jobs.iter().enumerate() {
        let st = match statuses[ji] {
            Some(s) => s,
            None => continue,
        };
        if let Some(sig) = st.signal() {
            // crash: deterministic re-run in journal mode to attribute it to an input
            let jpath = work.join(format!("{}.{}.journal", j.profile, j.index));
            let mut attributed = false;
            if let Ok(mut ch) = spawn(j, Some(&jpath)) {
                let st2 = ch.wait().ok();
                if st2.and_then(|s| s.signal()).is_some() {
                    if let Ok(t) = std::fs::read_to_string(&jpath) {
                        if let Some(line) = t.lines().next() {
                            // a crashing case cannot be shrunk in-process: minimise it by replaying candidates in child processes
                            let line = minimise_crash(&j.exe, id, line, verif_dir, &work);
                            violations.push(Violation {
                                case_text: line.to_string(),
                                msg: format!("process killed by signal {} while executing this case ({} profile)", sig, j.profile),
                                origin: format!("worker {} {}", j.profile, j.index),
                            });
                            attributed = true;
                        }
                    }
                }
            }
            if !attributed {
                inconclusive.push(format!(
                    "worker {} {} died with signal {} but the crash did not reproduce in journal mode",
                    j.profile, j.index, sig
                ));
            }
            continue;
        }
        match st.code() {
            Some(0) => {}
            Some(4) => {
                let hp = j.out.with_extension("hang");
                let text = std::fs::read_to_string(&hp).unwrap_or_default();
                inconclusive.push(format!("worker {} {} exceeded the memory budget on case: {}", j.profile, j.index, trunc(&text, 200)));
                continue;
            }
            Some(3) => {
                // watchdog: confirm alone with twice the budget (each distinct case once, at most 3)
                let hp = j.out.with_extension("hang");
                let text = std::fs::read_to_string(&hp).unwrap_or_default();
                if !hang_seen.insert(text.clone()) || hang_seen.len() > 3 {
                    inconclusive.push(format!("worker {} {} hit the per-case watchdog (duplicate or over the confirmation limit): {}", j.profile, j.index, trunc(&text, 200)));
                    continue;
                }
                let budget_s = prop.hang_budget_s(tier) * 2;
                let mut ch = Command::new(&j.exe)
                    .arg("replay")
                    .arg(id)
                    .arg(&hp)
                    .env("VERIF_DIR", verif_dir)
                    .stdout(Stdio::null())
                    .spawn()
                    .ok();
                let mut finished = false;
                if let Some(ch) = ch.as_mut() {
                    let t1 = Instant::now();
                    while t1.elapsed().as_secs() < budget_s {
                        if let Ok(Some(_)) = ch.try_wait() {
                            finished = true;
                            break;
                        }
                        std::thread::sleep(Duration::from_millis(200));
                    }
                    if !finished {
                        let _ = ch.kill();
                        let _ = ch.wait();
                    }
                }
                if !finished && prop.hang_is_violation() {
                    violations.push(Violation {
                        case_text: text.lines().next().unwrap_or("").to_string(),
                        msg: format!("operation did not terminate within {} s (confirmed alone in a fresh process)", budget_s),
                        origin: format!("worker {} {} watchdog", j.profile, j.index),
                    });
                } else {
                    inconclusive.push(format!(
                        "worker {} {} hit the per-case watchdog (confirmed={}): {}",
                        j.profile,
                        j.index,
                        !finished,
                        trunc(&text, 200)
                    ));
                }
                continue;
            }
            c => {
                inconclusive.push(format!("worker {} {} exited with {:?}", j.profile, j.index, c));
                continue;
            }
        }
        match parse_worker_out(&j.out) {
            None => inconclusive.push(format!("worker {} {} left no result", j.profile, j.index)),
            Some(wo) => {
                evaluations += wo.evaluations;
                *eval_by_profile.entry(j.profile.to_string()).or_insert(0) += wo.evaluations;
                nontrivial_total += wo.nontrivial;
                hash_overflow |= wo.hash_overflow;
                for (k, n) in wo.classes {
                    *classes.entry(k).or_insert(0) += n;
                }
                for (k, n) in wo.probes {
                    *probes.entry(k).or_insert(0) += n;
                }
                for (k, n) in wo.known {
                    *known_hits.entry(k).or_insert(0) += n;
                }
                if samples.len() < 12 {
                    samples.extend(wo.samples.into_iter().take(2));
                }
                if let Some((c, m)) = wo.failure {
                    violations.push(Violation {
                        case_text: c,
                        msg: m,
                        origin: format!("worker {} {}", j.profile, j.index),
                    });
                }
                if let Ok(b) = std::fs::read(j.out.with_extension("hashes")) {
                    for ch in b.chunks_exact(8) {
                        hashes.push(u64::from_le_bytes(ch.try_into().unwrap()));
                    }
                }
            }
        }
    }
    hashes.sort_unstable();
    hashes.dedup();
    let distinct = hashes.len() as u64;

    // ---- report ----
    let mut exit = 0;
    for (sig, n) in &known_hits {
        let desc = known
            .matches(id, sig)
            .map(|k| k.2.clone())
            .unwrap_or_default();
        println!("KNOWN-FINDING: property={} sig={} {} ({} cases excluded)", id, sig, desc, n);
    }
    // dedupe violations by case text
    let mut seen = HashSet::new();
    let mut vio_paths = vec![];
    for v in &violations {
        if seen.insert(v.case_text.clone()) {
            let p = write_replay(verif_dir, id, v);
            println!("VIOLATION property={} replay={}", id, p.display());
            println!("  detail: {} [{}]", trunc(&v.msg, 500), v.origin);
            println!("  case: {}", trunc(&v.case_text, 400));
            vio_paths.push(p.display().to_string());
            exit = 1;
        }
    }
    for m in &inconclusive {
        println!("INCONCLUSIVE property={} {}", id, m);
    }
    if exit == 0 && !inconclusive.is_empty() {
        exit = 2;
    }

    // ---- evidence ----
    let wall = t0.elapsed().as_secs_f64();
    let mut cov = vec![
        ("evaluations".to_string(), J::Int(evaluations as i64 + corpus_n as i64)),
        ("distinct_nontrivial".to_string(), J::Int(distinct as i64)),
        (
            "rule".to_string(),
            J::Str(format!(
                "{} Distinctness: 64-bit FNV hash of the serialised case, set union over all workers{}.",
                prop.rule(),
                if hash_overflow { " (per-worker cap reached: lower bound)" } else { "" }
            )),
        ),
        (
            "samples".to_string(),
            J::Arr(samples.iter().map(|s| J::Str(s.clone())).collect()),
        ),
        ("generated_cases".to_string(), J::Int(evaluations as i64)),
        ("nontrivial_evaluations".to_string(), J::Int(nontrivial_total as i64)),
        ("corpus_replayed".to_string(), J::Int(corpus_n as i64)),
        (
            "evaluations_by_profile".to_string(),
            J::Obj(eval_by_profile.iter().map(|(k, v)| (k.clone(), J::Int(*v as i64))).collect()),
        ),
        (
            "classes".to_string(),
            J::Obj(classes.iter().map(|(k, v)| (k.clone(), J::Int(*v as i64))).collect()),
        ),
        (
            "probe_hits".to_string(),
            J::Obj(probes.iter().map(|(k, v)| (k.clone(), J::Int(*v as i64))).collect()),
        ),
        (
            "excluded_known_findings".to_string(),
            J::Int(known_hits.values().sum::<u64>() as i64),
        ),
        ("workers".to_string(), J::Int(jobs.len() as i64)),
        ("technique".to_string(), J::Str(prop.technique().to_string())),
        ("exhaustive".to_string(), J::Bool(false)),
        (
            "inconclusive".to_string(),
            J::Arr(inconclusive.iter().map(|s| J::Str(s.clone())).collect()),
        ),
        (
            "violation_replays".to_string(),
            J::Arr(vio_paths.iter().map(|s| J::Str(s.clone())).collect()),
        ),
    ];
    // summary of the coverage-guided campaign that ran just before (thorough tier)
    if let Ok(t) = std::fs::read_to_string(verif_dir.join("work").join(format!("fuzz_{}.txt", id))) {
        let kv: Vec<(String, J)> = t
            .lines()
            .filter_map(|l| l.split_once('='))
            .map(|(k, v)| (k.to_string(), v.parse::<i64>().map(J::Int).unwrap_or_else(|_| J::Str(v.to_string()))))
            .collect();
        if !kv.is_empty() {
            cov.push(("coverage_guided_fuzzing".to_string(), J::Obj(kv)));
        }
    }
    cov.extend(extra);
    let ev = J::Obj(vec![
        ("property_id".to_string(), J::Str(id.to_string())),
        ("tier".to_string(), J::Str(tier.name().to_string())),
        ("seed".to_string(), J::Int(seed as i64)),
        ("level".to_string(), J::Str("exploration".to_string())),
        ("coverage".to_string(), J::Obj(cov)),
        (
            "assumptions".to_string(),
            J::Arr(prop.assumptions().into_iter().map(J::Str).collect()),
        ),
        ("wall_s".to_string(), J::Float(wall)),
        ("violations".to_string(), J::Int(vio_paths.len() as i64)),
    ]);
    let evdir = verif_dir.join("evidence");
    let _ = std::fs::create_dir_all(&evdir);
    let evp = evdir.join(format!("{}.json", id));
    let mut f = std::fs::File::create(&evp).expect("evidence file");
    let _ = f.write_all(ev.render().as_bytes());
    let _ = f.write_all(b"\n");
    println!(
        "{} {}: {} cases generated ({} distinct non-trivial), {} corpus, {:.1}s, exit {}",
        id,
        tier.name(),
        evaluations,
        distinct,
        corpus_n,
        wall,
        exit
    );
    exit
}

/// helper for strategies: turn a ValueTree-free strategy into a few sample values (used by the
/// fuzz corpus exporter)
pub fn sample_values(strategy: &BoxedStrategy<Case>, seed: u64, n: usize) -> Vec<Case> {
    let mut seed32 = [0u8; 32];
    seed32[..8].copy_from_slice(&seed.to_le_bytes());
    let rng = TestRng::from_seed(RngAlgorithm::ChaCha, &seed32);
    let mut runner = TestRunner::new_with_rng(
        Config {
            failure_persistence: None,
            ..Config::default()
        },
        rng,
    );
    let mut out = vec![];
    for _ in 0..n {
        if let Ok(t) = strategy.new_tree(&mut runner) {
            out.push(t.current());
        }
    }
    out
}
