//! Shared proptest building blocks.  Every random choice is made by proptest strategies, so a
//! run is a pure function of (code, seed) and failures shrink.  Lengths are never flat-mapped.

use nbcase::Arg;
use proptest::collection::vec;
use proptest::prelude::*;
use proptest::sample::select;

pub const MAX: u64 = u64::MAX;

pub const SPECIAL: [u64; 18] = [
    0,
    1,
    2,
    3,
    MAX,
    MAX - 1,
    1 << 63,
    (1 << 63) + 1,
    (1 << 63) - 1,
    1 << 32,
    (1 << 32) + 1,
    (1 << 32) - 1,
    1 << 31,
    0xFFFF_FFFF_0000_0000,
    0x0000_0000_FFFF_FFFF,
    0x8000_0000_0000_0001,
    0x5555_5555_5555_5555,
    0xAAAA_AAAA_AAAA_AAAA,
];

/// one u64 digit: special alphabet (65 %) or uniform (35 %)
pub fn digit() -> BoxedStrategy<u64> {
    prop_oneof![
        65 => select(SPECIAL.to_vec()),
        35 => any::<u64>(),
    ]
    .boxed()
}

pub fn trim(mut v: Vec<u64>) -> Vec<u64> {
    while let Some(&0) = v.last() {
        v.pop();
    }
    v
}

/// monotone index map: i in 0..65536 -> 0..n   (never `%`, so shrinking moves toward 0)
pub fn idx(i: u16, n: usize) -> usize {
    ((i as usize) * n) >> 16
}

/// deterministic expansion of a (kind, seed) pair into `len` digits; used for big operands where
/// a per-digit strategy would dominate the run time.  All randomness comes from the proptest-
/// generated seed.
pub fn expand(kind: u8, seed: u64, len: usize) -> Vec<u64> {
    let mut s = seed;
    let mut next = || {
        s = s.wrapping_add(0x9E3779B97F4A7C15);
        let mut z = s;
        z = (z ^ (z >> 30)).wrapping_mul(0xBF58476D1CE4E5B9);
        z = (z ^ (z >> 27)).wrapping_mul(0x94D049BB133111EB);
        z ^ (z >> 31)
    };
    let mut v = Vec::with_capacity(len);
    match kind % 8 {
        0 => {
            // special alphabet mix
            for _ in 0..len {
                let r = next();
                if r % 100 < 65 {
                    v.push(SPECIAL[(r >> 8) as usize % SPECIAL.len()]);
                } else {
                    v.push(next());
                }
            }
        }
        1 => {
            // uniform
            for _ in 0..len {
                v.push(next());
            }
        }
        2 => v.resize(len, MAX), // all ones
        3 => {
            // runs of ones / zeros at bit granularity
            let mut bit = next() & 1 == 1;
            let mut cur = 0u64;
            let mut nb = 0;
            let mut run = next() % 130 + 1;
            while v.len() < len {
                if bit {
                    cur |= 1 << nb;
                }
                nb += 1;
                run -= 1;
                if run == 0 {
                    bit = !bit;
                    run = next() % 130 + 1;
                }
                if nb == 64 {
                    v.push(cur);
                    cur = 0;
                    nb = 0;
                }
            }
        }
        4 => {
            // sparse: mostly zero digits
            for _ in 0..len {
                let r = next();
                v.push(if r % 8 == 0 { next() | 1 } else { 0 });
            }
            if let Some(l) = v.last_mut() {
                *l |= 1;
            }
        }
        5 => {
            // blocks of zeros and MAX at digit granularity
            let mut val = if next() & 1 == 1 { MAX } else { 0 };
            let mut run = next() % 40 + 1;
            for _ in 0..len {
                v.push(val);
                run -= 1;
                if run == 0 {
                    val = !val;
                    run = next() % 40 + 1;
                }
            }
            if let Some(l) = v.last_mut() {
                if *l == 0 {
                    *l = 1;
                }
            }
        }
        6 => {
            // dense: every digit non-zero, high bits set
            for _ in 0..len {
                v.push(next() | (1 << 63) | 1);
            }
        }
        _ => {
            // MAX-1 / MAX / 1 mix (worst-case carries)
            for _ in 0..len {
                let r = next() % 4;
                v.push(match r {
                    0 => MAX,
                    1 => MAX - 1,
                    2 => 1,
                    _ => 1 << 63,
                });
            }
        }
    }
    v
}

/// bit-runs natural: alternating runs of ones/zeros (GMP rrandomb style), at most `max_len` digits
pub fn runs_nat(max_len: usize) -> BoxedStrategy<Vec<u64>> {
    let max_runs = (max_len * 64 / 40).max(1);
    (any::<bool>(), vec(1usize..=130, 0..=max_runs))
        .prop_map(move |(first, runs)| {
            let mut v: Vec<u64> = vec![];
            let mut bitpos = 0usize;
            let mut bit = first;
            for r in runs {
                for _ in 0..r {
                    let w = bitpos / 64;
                    if w >= max_len {
                        break;
                    }
                    if w >= v.len() {
                        v.push(0);
                    }
                    if bit {
                        v[w] |= 1 << (bitpos % 64);
                    }
                    bitpos += 1;
                }
                bit = !bit;
            }
            trim(v)
        })
        .boxed()
}

/// A natural number (normalised) of at most `max_len` u64 digits, from the mixture of
/// DESIGN.md section 2.2.
pub fn nat(max_len: usize) -> BoxedStrategy<Vec<u64>> {
    nat_range(0, max_len)
}

pub fn nat_range(min_len: usize, max_len: usize) -> BoxedStrategy<Vec<u64>> {
    let lo = min_len;
    let hi = max_len.max(min_len);
    prop_oneof![
        40 => vec(digit(), lo..=hi).prop_map(trim),
        12 => runs_nat(hi),
        8 => (lo..=hi).prop_map(|k| vec![MAX; k]),
        6 => (lo..=hi).prop_map(|k| { let mut v = vec![0; k]; v.push(1); v }).prop_map(move |v| if v.len() > hi.max(1) { vec![1] } else { v }),
        8 => ((lo.max(1))..=hi.max(1), any::<bool>(), 1u64..=3).prop_map(|(k, plus, s)| {
            // B^(k-1) +- small  (or small itself for k==1)
            if k <= 1 { return vec![s]; }
            if plus { let mut v = vec![0; k]; v[0] = s; v[k-1] = 1; v }
            else { let mut v = vec![MAX; k-1]; v[0] = MAX - (s - 1); v }
        }),
        8 => ((lo.max(1))..=hi.max(1), any::<u16>(), digit()).prop_map(|(k, j, d)| {
            // sparse: one non-zero digit
            let mut v = vec![0; k]; let p = idx(j, k); v[p] = d | 1; trim(v)
        }),
        8 => vec(any::<u64>(), lo..=hi).prop_map(trim),
        10 => (vec(digit(), lo..=hi), any::<u16>(), any::<u16>()).prop_map(|(mut v, a, b)| {
            // zero out an interior/low block
            let n = v.len();
            if n > 0 { let i = idx(a, n); let j = i + idx(b, n - i + 1); for x in &mut v[i..j] { *x = 0; } }
            trim(v)
        }),
    ]
    .boxed()
}

/// big natural by deterministic expansion: exact length from `lens`
pub fn big_nat(lens: Vec<usize>) -> BoxedStrategy<Vec<u64>> {
    (select(lens), any::<u8>(), any::<u64>())
        .prop_map(|(l, k, s)| {
            let mut v = expand(k, s, l);
            if let Some(t) = v.last_mut() {
                if *t == 0 {
                    *t = 1;
                }
            }
            v
        })
        .boxed()
}

pub fn int(max_len: usize) -> BoxedStrategy<(bool, Vec<u64>)> {
    (any::<bool>(), nat(max_len)).boxed()
}

pub fn arg_n(max_len: usize) -> BoxedStrategy<Arg> {
    nat(max_len).prop_map(Arg::N).boxed()
}
pub fn arg_z(max_len: usize) -> BoxedStrategy<Arg> {
    int(max_len).prop_map(|(s, v)| Arg::Z(s, v)).boxed()
}

/// interesting shift amounts / bit indices relative to a value of `len` digits
pub fn shift_amount(max_len: usize) -> BoxedStrategy<u64> {
    let top = (max_len as u64) * 64;
    prop_oneof![
        select(vec![0u64, 1, 2, 31, 32, 33, 63, 64, 65, 127, 128, 129]),
        0u64..=(top + 70),
        (0u64..=(max_len as u64 + 1)).prop_map(|k| k * 64),
        (1u64..=(max_len as u64 + 1)).prop_map(|k| k * 64 - 1),
        (0u64..=(max_len as u64 + 1)).prop_map(|k| k * 64 + 1),
    ]
    .boxed()
}

/// a non-zero natural (by construction: low bit of top digit forced when needed)
pub fn nat_nonzero(max_len: usize) -> BoxedStrategy<Vec<u64>> {
    nat(max_len)
        .prop_map(|v| if v.is_empty() { vec![1] } else { v })
        .boxed()
}

pub fn scalar_u128() -> BoxedStrategy<u128> {
    prop_oneof![
        select(vec![
            0u128,
            1,
            2,
            3,
            255,
            256,
            65535,
            65536,
            (1 << 31) - 1,
            1 << 31,
            (1 << 32) - 1,
            1 << 32,
            (1 << 32) + 1,
            (1 << 63) - 1,
            1 << 63,
            (1u128 << 64) - 1,
            1u128 << 64,
            (1u128 << 64) + 1,
            (1u128 << 96) + 5,
            (1u128 << 127) - 1,
            1u128 << 127,
            u128::MAX - 1,
            u128::MAX
        ]),
        any::<u128>(),
        any::<u64>().prop_map(|x| x as u128),
        any::<u32>().prop_map(|x| x as u128),
        any::<u8>().prop_map(|x| x as u128),
    ]
    .boxed()
}

pub fn scalar_i128() -> BoxedStrategy<i128> {
    prop_oneof![
        select(vec![
            0i128,
            1,
            -1,
            2,
            -2,
            127,
            128,
            -128,
            -129,
            32767,
            -32768,
            i32::MAX as i128,
            i32::MIN as i128,
            i32::MIN as i128 - 1,
            u32::MAX as i128,
            u32::MAX as i128 + 1,
            i64::MAX as i128,
            i64::MIN as i128,
            i64::MIN as i128 - 1,
            i64::MAX as i128 + 1,
            u64::MAX as i128,
            u64::MAX as i128 + 1,
            -(u64::MAX as i128),
            -(u64::MAX as i128) - 1,
            i128::MAX,
            i128::MIN,
            i128::MIN + 1,
            i128::MAX - 1
        ]),
        any::<i128>(),
        any::<i64>().prop_map(|x| x as i128),
        any::<i32>().prop_map(|x| x as i128),
        any::<i8>().prop_map(|x| x as i128),
    ]
    .boxed()
}

// ------------------------------------------------------------------------------------------
// operand pairs for add/sub (C01, reused by C10/C14/C15)

pub const ASM_LENS: [usize; 24] = [
    0, 1, 2, 3, 4, 5, 6, 9, 10, 11, 14, 15, 16, 19, 20, 21, 24, 25, 26, 29, 30, 31, 35, 40,
];

fn force_len(mut v: Vec<u64>, l: usize) -> Vec<u64> {
    v.truncate(l);
    if let Some(t) = v.last_mut() {
        if *t == 0 {
            *t = 1;
        }
    }
    v
}

/// exact-length operand with lengths on and around the 5-digit asm block boundary
pub fn asm_len_nat() -> BoxedStrategy<Vec<u64>> {
    (select(ASM_LENS.to_vec()), vec(digit(), 40))
        .prop_map(|(l, v)| force_len(v, l))
        .boxed()
}

pub fn addsub_pair(max_len: usize) -> BoxedStrategy<(Vec<u64>, Vec<u64>)> {
    let ml = max_len;
    prop_oneof![
        // independent operands
        20 => (nat(ml), nat(ml)),
        // lengths on the asm block grid
        20 => (asm_len_nat(), asm_len_nat()),
        // carry chain: a is all-ones except one digit at p; b = low 1 / all ones / random low part
        15 => (0usize..=ml, any::<u16>(), digit(), prop_oneof![
                    Just(vec![1u64]),
                    (1usize..=ml.max(1)).prop_map(|j| vec![MAX; j]),
                    vec(digit(), 1..=ml.max(1)),
                ], proptest::option::of(digit()))
            .prop_map(|(la, p, d, b, tail)| {
                let mut a = vec![MAX; la];
                if la > 0 { let i = idx(p, la); a[i] = d; }
                if let Some(t) = tail { a.push(t); }
                (trim(a), trim(b))
            }),
        // chain that dies exactly at digit j: b = B^j - (a mod B^j)  (low j digits of a+b are zero, carry 1 into digit j)
        10 => (vec(digit(), 1..=ml.max(1)), any::<u16>(), vec(digit(), 0..=3))
            .prop_map(|(a, jj, hi)| {
                let j = idx(jj, a.len()) + 1;
                // two's complement of the low j digits
                let mut b: Vec<u64> = a[..j].iter().map(|d| !d).collect();
                let mut c = 1u64;
                for x in b.iter_mut() { let (s, o) = x.overflowing_add(c); *x = s; c = o as u64; }
                b.extend(hi);
                (trim(a), trim(b))
            }),
        // borrow ripple: a = B^k + small, b = small / B^j - 1
        10 => (1usize..=ml.max(1), 0u64..=3, prop_oneof![
                    (1u64..=4).prop_map(|s| vec![s]),
                    (1usize..=ml.max(1)).prop_map(|j| vec![MAX; j]),
                    vec(digit(), 1..=ml.max(1)),
                ])
            .prop_map(|(k, s, b)| { let mut a = vec![0; k + 1]; a[0] = s; a[k] = 1; (a, trim(b)) }),
        // nearly equal: common high part, different low parts (difference loses many digits)
        15 => (vec(digit(), 0..=ml), vec(digit(), 0..=4), vec(digit(), 0..=4))
            .prop_map(|(hi, la, lb)| {
                let n = la.len().max(lb.len());
                let mut a = la; a.resize(n, 0); a.extend(hi.iter());
                let mut b = lb; b.resize(n, 0); b.extend(hi.iter());
                (trim(a), trim(b))
            }),
        // a = b + delta, |delta| <= 3 (underflow edge)
        10 => (nat(ml), -3i64..=3).prop_map(|(a, d)| {
                let an = crate::refint::RefInt::from_digits(false, &a);
                let bn = an.add(&crate::refint::RefInt::from_i128(d as i128));
                let b = if bn.neg { vec![] } else { bn.mag.to_u64_digits() };
                (a, b)
            }),
    ]
    .boxed()
}

/// big add/sub pairs (thorough): lengths to `max_len`, deterministic expansion
pub fn addsub_pair_big(max_len: usize) -> BoxedStrategy<(Vec<u64>, Vec<u64>)> {
    let lens: Vec<usize> = vec![41, 50, 64, 99, 100, 101, 128, 255, 256, 300, 499, 500, 501, 600, 1000, 2047, 2048, 4999, 5000]
        .into_iter()
        .filter(|l| *l <= max_len)
        .collect();
    let lens = if lens.is_empty() { vec![max_len] } else { lens };
    (big_nat(lens.clone()), big_nat(lens), any::<bool>())
        .prop_map(|(a, b, same_top)| {
            if same_top && a.len() == b.len() && !a.is_empty() {
                // force long cancellation: copy the high half
                let mut b2 = b.clone();
                let h = a.len() / 2;
                b2[h..].copy_from_slice(&a[h..]);
                (a, b2)
            } else {
                (a, b)
            }
        })
        .boxed()
}

// ------------------------------------------------------------------------------------------
// dividend/divisor pairs (C03, reused by C05/C10/C14/C15)

use crate::refint::Nat as RNat;

fn rnat(d: &[u64]) -> RNat {
    RNat::from_u64_digits(d)
}

/// (a, b) with b != 0, from the families of DESIGN.md C03
pub fn div_pair(max_len: usize) -> BoxedStrategy<(Vec<u64>, Vec<u64>)> {
    let ml = max_len.max(4);
    let hl = (ml / 2).max(2);
    prop_oneof![
        // independent
        15 => (nat(ml), nat_nonzero(hl)),
        // single-digit divisors
        8 => (nat(ml), prop_oneof![
                select(vec![1u64, 2, 3, 10, 1 << 31, 1 << 32, (1 << 32) - 1, (1 << 32) + 1, 1 << 63, MAX, MAX - 1]),
                (0u32..64).prop_map(|k| 1u64 << k),
                digit().prop_map(|d| d | 1),
            ]).prop_map(|(a, d)| (a, vec![d])),
        // a < b, a == b, equal lengths, a = b +- 1
        8 => (nat_range(2, hl), -2i64..=2).prop_map(|(b, d)| {
                let b = if b.is_empty() { vec![1, 1] } else { b };
                let bn = crate::refint::RefInt::from_digits(false, &b);
                let an = bn.add(&crate::refint::RefInt::from_i128(d as i128));
                let a = if an.neg { vec![] } else { an.mag.to_u64_digits() };
                (a, b)
            }),
        6 => (vec(digit(), 2..=hl), vec(digit(), 2..=hl), any::<u16>()).prop_map(|(a, b, k)| {
                // equal length operands
                let n = 2 + idx(k, a.len().min(b.len()) - 1);
                let mut a = a; a.truncate(n); let mut b = b; b.truncate(n);
                if *b.last().unwrap() == 0 { *b.last_mut().unwrap() = 1; }
                (trim(a), b)
            }),
        // every normalisation shift: divisor top digit = 1<<s | low
        10 => (nat(ml), vec(digit(), 1..=hl), 0u32..64, any::<u64>()).prop_map(|(a, mut b, s, low)| {
                let top = (1u64 << s) | (low & ((1u64 << s) - 1));
                b.push(top);
                (a, b)
            }),
        // family A: forces add-back.  a = Q * [b1,b0] * B^k + tiny ; b = [b1,b0] * B^k + lo
        18 => (vec(digit(), 1..=4), digit(), digit(), 0usize..=hl.saturating_sub(2).max(1), vec(digit(), 0..=3), any::<u8>(), any::<u64>())
            .prop_map(|(q, b1, b0, k, tiny, lokind, loseed)| {
                let b0 = if b0 == 0 { 1 } else { b0 };
                let k = k.max(1);
                let bt = rnat(&[b1, b0]);
                let lo = {
                    let mut v = expand(lokind, loseed, k);
                    if v.iter().all(|d| *d == 0) { v[0] = 1; }
                    v
                };
                let b = bt.shl(64 * k as u64).add(&rnat(&lo));
                let mut tiny = tiny; tiny.truncate(k);
                let a = rnat(&trim(q)).mul(&bt).shl(64 * k as u64).add(&rnat(&trim(tiny)));
                (a.to_u64_digits(), b.to_u64_digits())
            }),
        // family B: remainder's top digit equals the divisor's top digit
        18 => (digit(), 0usize..=hl.saturating_sub(2), vec(digit(), 0..=6), digit(), vec(digit(), 0..=hl))
            .prop_map(|(t, mid, low, x, rlow)| {
                let t = if t == 0 { 1 } else { t };
                // b = [MAX; mid+1] ++ [t]
                let mut b = vec![MAX; mid + 1];
                b.push(t);
                // r < b with the same top digit and the next digit MAX where possible
                let n = b.len();
                let mut r: Vec<u64> = rlow; r.resize(n, MAX); r[n - 1] = t;
                r[0] = if x == MAX { MAX - 1 } else { x };
                if n > 2 { r[n - 2] = MAX; }
                // a = r * B^len(low) + low
                let mut a = low; a.extend(r);
                (trim(a), b)
            }),
        // exact products and near-products: a = q*b + r, r in {0, 1, b-1}
        17 => (nat_nonzero(hl), nat(hl), 0u8..3).prop_map(|(b, q, rk)| {
                let bn = rnat(&b);
                let r = match rk { 0 => RNat::zero(), 1 => if bn.is_one() { RNat::zero() } else { RNat::one() }, _ => bn.sub(&RNat::one()) };
                let a = rnat(&q).mul(&bn).add(&r);
                (a.to_u64_digits(), b)
            }),
    ]
    .boxed()
}

/// big division pairs for the thorough tier
pub fn div_pair_big(max_len: usize) -> BoxedStrategy<(Vec<u64>, Vec<u64>)> {
    let la: Vec<usize> = vec![41, 64, 100, 128, 200, 256, 400].into_iter().filter(|l| *l <= max_len).collect();
    let lb: Vec<usize> = vec![2, 3, 20, 33, 64, 100, 128, 200].into_iter().filter(|l| *l <= max_len).collect();
    (big_nat(la), big_nat(lb)).boxed()
}
