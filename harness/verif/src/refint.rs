//! `RefInt`: an independent, deliberately naive arbitrary-precision integer used as the oracle.
//!
//! Magnitudes are `Vec<u32>` limbs (little endian, no trailing zero) — a different digit width
//! from the library's u64 — with schoolbook algorithms on u64 accumulators.  Division is a
//! textbook Knuth D on u32 limbs whose every result is self-checked by `a == q*b + r && r < b`
//! using only mul/add/cmp; a failed self-check aborts the process with exit code 2
//! ("oracle error"), never with a verdict.  The whole module is cross-validated against
//! CPython's `int` by `tools/oracle_check.py`.

use std::cmp::Ordering;

pub fn oracle_error(msg: &str) -> ! {
    eprintln!("ORACLE-ERROR: {}", msg);
    std::process::exit(2);
}

// ------------------------------------------------------------------------------------------
// naturals

#[derive(Clone, Debug, PartialEq, Eq, Hash, Default)]
pub struct Nat(pub Vec<u32>);

fn trim(v: &mut Vec<u32>) {
    while let Some(&0) = v.last() {
        v.pop();
    }
}

impl Nat {
    pub fn zero() -> Nat {
        Nat(vec![])
    }
    pub fn one() -> Nat {
        Nat(vec![1])
    }
    pub fn from_u128(mut x: u128) -> Nat {
        let mut v = vec![];
        while x != 0 {
            v.push(x as u32);
            x >>= 32;
        }
        Nat(v)
    }
    pub fn from_u64(x: u64) -> Nat {
        Nat::from_u128(x as u128)
    }
    /// From little-endian u64 digits (redundant high zeros allowed).
    pub fn from_u64_digits(d: &[u64]) -> Nat {
        let mut v = Vec::with_capacity(d.len() * 2);
        for &x in d {
            v.push(x as u32);
            v.push((x >> 32) as u32);
        }
        trim(&mut v);
        Nat(v)
    }
    pub fn from_u32_digits(d: &[u32]) -> Nat {
        let mut v = d.to_vec();
        trim(&mut v);
        Nat(v)
    }
    pub fn to_u64_digits(&self) -> Vec<u64> {
        let mut out = Vec::with_capacity((self.0.len() + 1) / 2);
        for ch in self.0.chunks(2) {
            let lo = ch[0] as u64;
            let hi = if ch.len() > 1 { ch[1] as u64 } else { 0 };
            out.push(lo | (hi << 32));
        }
        out
    }
    pub fn to_u32_digits(&self) -> Vec<u32> {
        self.0.clone()
    }
    pub fn to_u128(&self) -> Option<u128> {
        if self.0.len() > 4 {
            return None;
        }
        let mut x = 0u128;
        for (i, &d) in self.0.iter().enumerate() {
            x |= (d as u128) << (32 * i);
        }
        Some(x)
    }
    pub fn to_u64(&self) -> Option<u64> {
        self.to_u128().and_then(|x| u64::try_from(x).ok())
    }
    pub fn is_zero(&self) -> bool {
        self.0.is_empty()
    }
    pub fn is_one(&self) -> bool {
        self.0.len() == 1 && self.0[0] == 1
    }
    pub fn is_odd(&self) -> bool {
        self.0.first().map_or(false, |d| d & 1 == 1)
    }
    pub fn bits(&self) -> u64 {
        match self.0.last() {
            None => 0,
            Some(&t) => (self.0.len() as u64 - 1) * 32 + (32 - t.leading_zeros() as u64),
        }
    }
    pub fn bit(&self, i: u64) -> bool {
        let w = (i / 32) as usize;
        if w >= self.0.len() {
            return false;
        }
        (self.0[w] >> (i % 32)) & 1 == 1
    }
    pub fn set_bit(&mut self, i: u64, val: bool) {
        let w = (i / 32) as usize;
        if val {
            if w >= self.0.len() {
                self.0.resize(w + 1, 0);
            }
            self.0[w] |= 1 << (i % 32);
        } else if w < self.0.len() {
            self.0[w] &= !(1 << (i % 32));
            trim(&mut self.0);
        }
    }
    pub fn trailing_zeros(&self) -> Option<u64> {
        for (i, &d) in self.0.iter().enumerate() {
            if d != 0 {
                return Some(i as u64 * 32 + d.trailing_zeros() as u64);
            }
        }
        None
    }
    pub fn trailing_ones(&self) -> u64 {
        let mut n = 0;
        for &d in &self.0 {
            if d == u32::MAX {
                n += 32;
            } else {
                return n + d.trailing_ones() as u64;
            }
        }
        n
    }
    pub fn count_ones(&self) -> u64 {
        self.0.iter().map(|d| d.count_ones() as u64).sum()
    }
    pub fn cmp(&self, o: &Nat) -> Ordering {
        if self.0.len() != o.0.len() {
            return self.0.len().cmp(&o.0.len());
        }
        for i in (0..self.0.len()).rev() {
            if self.0[i] != o.0[i] {
                return self.0[i].cmp(&o.0[i]);
            }
        }
        Ordering::Equal
    }
    pub fn lt(&self, o: &Nat) -> bool {
        self.cmp(o) == Ordering::Less
    }
    pub fn le(&self, o: &Nat) -> bool {
        self.cmp(o) != Ordering::Greater
    }
    pub fn add(&self, o: &Nat) -> Nat {
        let (a, b) = if self.0.len() >= o.0.len() {
            (&self.0, &o.0)
        } else {
            (&o.0, &self.0)
        };
        let mut out = Vec::with_capacity(a.len() + 1);
        let mut c = 0u64;
        for i in 0..a.len() {
            let s = a[i] as u64 + if i < b.len() { b[i] as u64 } else { 0 } + c;
            out.push(s as u32);
            c = s >> 32;
        }
        if c != 0 {
            out.push(c as u32);
        }
        Nat(out)
    }
    /// self - o; requires self >= o (oracle error otherwise).
    pub fn sub(&self, o: &Nat) -> Nat {
        if self.lt(o) {
            oracle_error("Nat::sub underflow");
        }
        let mut out = Vec::with_capacity(self.0.len());
        let mut br = 0i64;
        for i in 0..self.0.len() {
            let mut s = self.0[i] as i64 - if i < o.0.len() { o.0[i] as i64 } else { 0 } - br;
            if s < 0 {
                s += 1 << 32;
                br = 1;
            } else {
                br = 0;
            }
            out.push(s as u32);
        }
        trim(&mut out);
        Nat(out)
    }
    pub fn add_small(&self, x: u32) -> Nat {
        self.add(&Nat::from_u64(x as u64))
    }
    pub fn mul(&self, o: &Nat) -> Nat {
        if self.is_zero() || o.is_zero() {
            return Nat::zero();
        }
        let mut out = vec![0u32; self.0.len() + o.0.len()];
        for (i, &a) in self.0.iter().enumerate() {
            if a == 0 {
                continue;
            }
            let mut c = 0u64;
            for (j, &b) in o.0.iter().enumerate() {
                let t = a as u64 * b as u64 + out[i + j] as u64 + c;
                out[i + j] = t as u32;
                c = t >> 32;
            }
            let mut k = i + o.0.len();
            while c != 0 {
                let t = out[k] as u64 + c;
                out[k] = t as u32;
                c = t >> 32;
                k += 1;
            }
        }
        trim(&mut out);
        Nat(out)
    }
    pub fn mul_small(&self, x: u32) -> Nat {
        let mut out = Vec::with_capacity(self.0.len() + 1);
        let mut c = 0u64;
        for &a in &self.0 {
            let t = a as u64 * x as u64 + c;
            out.push(t as u32);
            c = t >> 32;
        }
        if c != 0 {
            out.push(c as u32);
        }
        trim(&mut out);
        Nat(out)
    }
    pub fn divrem_small(&self, d: u32) -> (Nat, u32) {
        if d == 0 {
            oracle_error("divrem_small by zero");
        }
        let mut out = vec![0u32; self.0.len()];
        let mut r = 0u64;
        for i in (0..self.0.len()).rev() {
            let cur = (r << 32) | self.0[i] as u64;
            out[i] = (cur / d as u64) as u32;
            r = cur % d as u64;
        }
        trim(&mut out);
        (Nat(out), r as u32)
    }
    pub fn shl(&self, k: u64) -> Nat {
        if self.is_zero() {
            return Nat::zero();
        }
        let w = (k / 32) as usize;
        let b = (k % 32) as u32;
        let mut out = vec![0u32; w];
        if b == 0 {
            out.extend_from_slice(&self.0);
        } else {
            let mut c = 0u32;
            for &d in &self.0 {
                out.push((d << b) | c);
                c = d >> (32 - b);
            }
            if c != 0 {
                out.push(c);
            }
        }
        Nat(out)
    }
    pub fn shr(&self, k: u64) -> Nat {
        let w = (k / 32) as usize;
        let b = (k % 32) as u32;
        if w >= self.0.len() {
            return Nat::zero();
        }
        let src = &self.0[w..];
        let mut out = Vec::with_capacity(src.len());
        if b == 0 {
            out.extend_from_slice(src);
        } else {
            for i in 0..src.len() {
                let hi = if i + 1 < src.len() { src[i + 1] << (32 - b) } else { 0 };
                out.push((src[i] >> b) | hi);
            }
        }
        trim(&mut out);
        Nat(out)
    }
    /// true if any of the low k bits is set
    pub fn low_bits_nonzero(&self, k: u64) -> bool {
        match self.trailing_zeros() {
            None => false,
            Some(tz) => tz < k,
        }
    }
    pub fn pow2(k: u64) -> Nat {
        Nat::one().shl(k)
    }

    /// Knuth algorithm D on u32 limbs, self-checked.
    pub fn divrem(&self, d: &Nat) -> (Nat, Nat) {
        if d.is_zero() {
            oracle_error("Nat::divrem by zero");
        }
        let (q, r) = self.divrem_unchecked(d);
        // self-check with independent primitives only
        if !r.lt(d) || q.mul(d).add(&r) != *self {
            oracle_error("Nat::divrem self-check failed");
        }
        (q, r)
    }
    fn divrem_unchecked(&self, d: &Nat) -> (Nat, Nat) {
        if self.lt(d) {
            return (Nat::zero(), self.clone());
        }
        if d.0.len() == 1 {
            let (q, r) = self.divrem_small(d.0[0]);
            return (q, Nat::from_u64(r as u64));
        }
        let s = d.0.last().unwrap().leading_zeros() as u64;
        let v = d.shl(s).0;
        let mut u = self.shl(s).0;
        let n = v.len();
        u.resize(self.0.len() + 1, 0);
        let m = u.len() - n - 1;
        let mut q = vec![0u32; m + 1];
        let b: u64 = 1 << 32;
        for j in (0..=m).rev() {
            let num = ((u[j + n] as u64) << 32) | u[j + n - 1] as u64;
            let mut qhat = num / v[n - 1] as u64;
            let mut rhat = num % v[n - 1] as u64;
            while qhat >= b || qhat * v[n - 2] as u64 > ((rhat << 32) | u[j + n - 2] as u64) {
                qhat -= 1;
                rhat += v[n - 1] as u64;
                if rhat >= b {
                    break;
                }
            }
            // multiply and subtract
            let mut borrow: i64 = 0;
            let mut carry: u64 = 0;
            for i in 0..n {
                let p = qhat * v[i] as u64 + carry;
                carry = p >> 32;
                let t = u[i + j] as i64 - borrow - (p & 0xffff_ffff) as i64;
                if t < 0 {
                    u[i + j] = (t + (1 << 32)) as u32;
                    borrow = 1;
                } else {
                    u[i + j] = t as u32;
                    borrow = 0;
                }
            }
            let t = u[j + n] as i64 - borrow - carry as i64;
            if t < 0 {
                u[j + n] = (t + (1 << 32)) as u32;
                // add back
                qhat -= 1;
                let mut c = 0u64;
                for i in 0..n {
                    let s2 = u[i + j] as u64 + v[i] as u64 + c;
                    u[i + j] = s2 as u32;
                    c = s2 >> 32;
                }
                u[j + n] = (u[j + n] as u64 + c) as u32;
            } else {
                u[j + n] = t as u32;
            }
            q[j] = qhat as u32;
        }
        trim(&mut q);
        u.truncate(n);
        trim(&mut u);
        (Nat(q), Nat(u).shr(s))
    }
    pub fn pow(&self, mut e: u64) -> Nat {
        // independent left-to-right would need bit scanning; plain right-to-left is fine here,
        // tools/oracle_check.py validates it against CPython.
        let mut base = self.clone();
        let mut acc = Nat::one();
        while e > 0 {
            if e & 1 == 1 {
                acc = acc.mul(&base);
            }
            e >>= 1;
            if e > 0 {
                base = base.mul(&base);
            }
        }
        acc
    }
    /// self^e, but give up (None) as soon as the result would exceed `max_bits` bits.
    pub fn pow_bounded(&self, e: u64, max_bits: u64) -> Option<Nat> {
        if e == 0 {
            return Some(Nat::one());
        }
        if self.is_zero() {
            return Some(Nat::zero());
        }
        if self.is_one() {
            return Some(Nat::one());
        }
        // bits(self^e) >= (bits(self)-1)*e + 1
        let lb = (self.bits() - 1).checked_mul(e)?.checked_add(1)?;
        if lb > max_bits {
            return None;
        }
        let r = self.pow(e);
        if r.bits() > max_bits {
            None
        } else {
            Some(r)
        }
    }
    pub fn gcd(&self, o: &Nat) -> Nat {
        let mut a = self.clone();
        let mut b = o.clone();
        while !b.is_zero() {
            let (_, r) = a.divrem(&b);
            a = b;
            b = r;
        }
        a
    }
    pub fn rem(&self, m: &Nat) -> Nat {
        self.divrem(m).1
    }
    pub fn modpow(&self, e: &Nat, m: &Nat) -> Nat {
        if m.is_one() {
            return Nat::zero();
        }
        let mut acc = Nat::one();
        let base = self.rem(m);
        let nb = e.bits();
        for i in (0..nb).rev() {
            acc = acc.mul(&acc).rem(m);
            if e.bit(i) {
                acc = acc.mul(&base).rem(m);
            }
        }
        acc
    }
    /// little-endian digits in the given radix (2..=2^32); zero gives an empty vector.
    pub fn to_radix_le(&self, radix: u32) -> Vec<u32> {
        let mut out = vec![];
        let mut x = self.clone();
        while !x.is_zero() {
            let (q, r) = x.divrem_small(radix);
            out.push(r);
            x = q;
        }
        out
    }
    pub fn from_radix_be(digits: &[u32], radix: u32) -> Nat {
        let mut x = Nat::zero();
        for &d in digits {
            x = x.mul_small_wide(radix).add(&Nat::from_u64(d as u64));
        }
        x
    }
    fn mul_small_wide(&self, x: u32) -> Nat {
        self.mul_small(x)
    }
    pub fn to_string_radix(&self, radix: u32, upper: bool) -> String {
        if self.is_zero() {
            return "0".into();
        }
        let d = self.to_radix_le(radix);
        d.iter()
            .rev()
            .map(|&x| {
                let c = std::char::from_digit(x, radix).unwrap();
                if upper {
                    c.to_ascii_uppercase()
                } else {
                    c
                }
            })
            .collect()
    }
    pub fn to_bytes_le(&self) -> Vec<u8> {
        let mut out = vec![];
        for &d in &self.0 {
            out.extend_from_slice(&d.to_le_bytes());
        }
        while let Some(&0) = out.last() {
            out.pop();
        }
        out
    }
    pub fn from_bytes_le(b: &[u8]) -> Nat {
        let mut v = vec![];
        for ch in b.chunks(4) {
            let mut w = [0u8; 4];
            w[..ch.len()].copy_from_slice(ch);
            v.push(u32::from_le_bytes(w));
        }
        trim(&mut v);
        Nat(v)
    }
    pub fn and(&self, o: &Nat) -> Nat {
        let n = self.0.len().min(o.0.len());
        let mut v: Vec<u32> = (0..n).map(|i| self.0[i] & o.0[i]).collect();
        trim(&mut v);
        Nat(v)
    }
    pub fn or(&self, o: &Nat) -> Nat {
        let n = self.0.len().max(o.0.len());
        let g = |x: &Nat, i: usize| x.0.get(i).copied().unwrap_or(0);
        let mut v: Vec<u32> = (0..n).map(|i| g(self, i) | g(o, i)).collect();
        trim(&mut v);
        Nat(v)
    }
    pub fn xor(&self, o: &Nat) -> Nat {
        let n = self.0.len().max(o.0.len());
        let g = |x: &Nat, i: usize| x.0.get(i).copied().unwrap_or(0);
        let mut v: Vec<u32> = (0..n).map(|i| g(self, i) ^ g(o, i)).collect();
        trim(&mut v);
        Nat(v)
    }
    /// self & !o
    pub fn andnot(&self, o: &Nat) -> Nat {
        let g = |x: &Nat, i: usize| x.0.get(i).copied().unwrap_or(0);
        let mut v: Vec<u32> = (0..self.0.len()).map(|i| self.0[i] & !g(o, i)).collect();
        trim(&mut v);
        Nat(v)
    }

    /// Correctly rounded (nearest, ties-to-even) conversion to a binary float with `mant`
    /// significand bits (incl. hidden bit) and maximum exponent `max_exp` (2^max_exp overflows).
    /// Returns None for "infinity", else (significand, exponent) with value = sig * 2^exp,
    /// sig < 2^mant.
    pub fn round_to_float(&self, mant: u64, max_exp: u64) -> Option<(u64, u64)> {
        let bits = self.bits();
        if bits <= mant {
            return Some((self.to_u64().unwrap(), 0));
        }
        let sh = bits - mant;
        let mut sig = self.shr(sh).to_u64().unwrap();
        let round = self.bit(sh - 1);
        let sticky = self.low_bits_nonzero(sh - 1);
        let mut exp = sh;
        if round && (sticky || sig & 1 == 1) {
            sig += 1;
            if sig == 1 << mant {
                sig >>= 1;
                exp += 1;
            }
        }
        // value = sig * 2^exp with 2^(mant-1) <= sig < 2^mant: overflows iff exp+mant > max_exp
        if exp + mant > max_exp {
            None
        } else {
            Some((sig, exp))
        }
    }
    pub fn to_f64(&self) -> f64 {
        match self.round_to_float(53, 1024) {
            None => f64::INFINITY,
            Some((sig, exp)) => {
                if sig == 0 {
                    return 0.0;
                }
                // assemble bits exactly: sig has <=53 bits
                let lz = sig.leading_zeros() as u64; // sig normalised to 53 bits if exp>0
                let top = 63 - lz; // index of top bit of sig
                let e = exp + top; // unbiased exponent
                let frac = (sig << (52 - top)) & ((1u64 << 52) - 1);
                f64::from_bits(((e + 1023) << 52) | frac)
            }
        }
    }
    pub fn to_f32(&self) -> f32 {
        match self.round_to_float(24, 128) {
            None => f32::INFINITY,
            Some((sig, exp)) => {
                if sig == 0 {
                    return 0.0;
                }
                let top = 63 - sig.leading_zeros() as u64;
                let e = exp + top;
                let frac = ((sig << (23 - top)) & ((1u64 << 23) - 1)) as u32;
                f32::from_bits((((e + 127) as u32) << 23) | frac)
            }
        }
    }
    /// fingerprint: value modulo a 61-bit prime, folded digit by digit with u128 arithmetic
    pub fn fingerprint(&self, p: u64) -> u64 {
        let mut r: u128 = 0;
        for &d in self.0.iter().rev() {
            r = ((r << 32) | d as u128) % p as u128;
        }
        r as u64
    }
}

pub const FP_PRIMES: [u64; 3] = [
    2305843009213693951, // 2^61 - 1
    2305843009213693921, // prime
    2305843009213693907, // prime
];

pub fn fingerprint_u64_digits(d: &[u64], p: u64) -> u64 {
    let mut r: u128 = 0;
    for &x in d.iter().rev() {
        r = (((r << 64) % p as u128) + (x as u128 % p as u128)) % p as u128;
    }
    r as u64
}

// ------------------------------------------------------------------------------------------
// integers

#[derive(Clone, Debug, PartialEq, Eq, Hash, Default)]
pub struct RefInt {
    pub neg: bool, // never true for zero
    pub mag: Nat,
}

impl RefInt {
    pub fn new(neg: bool, mag: Nat) -> RefInt {
        let neg = neg && !mag.is_zero();
        RefInt { neg, mag }
    }
    pub fn zero() -> RefInt {
        RefInt::default()
    }
    pub fn from_nat(n: Nat) -> RefInt {
        RefInt::new(false, n)
    }
    pub fn from_i128(x: i128) -> RefInt {
        RefInt::new(x < 0, Nat::from_u128(x.unsigned_abs()))
    }
    pub fn from_u128(x: u128) -> RefInt {
        RefInt::new(false, Nat::from_u128(x))
    }
    pub fn from_digits(neg: bool, d: &[u64]) -> RefInt {
        RefInt::new(neg, Nat::from_u64_digits(d))
    }
    pub fn to_i128(&self) -> Option<i128> {
        let m = self.mag.to_u128()?;
        if self.neg {
            if m <= 1u128 << 127 {
                Some((m as i128).wrapping_neg())
            } else {
                None
            }
        } else {
            i128::try_from(m).ok()
        }
    }
    pub fn is_zero(&self) -> bool {
        self.mag.is_zero()
    }
    pub fn signum(&self) -> i32 {
        if self.mag.is_zero() {
            0
        } else if self.neg {
            -1
        } else {
            1
        }
    }
    pub fn neg(&self) -> RefInt {
        RefInt::new(!self.neg, self.mag.clone())
    }
    pub fn abs(&self) -> RefInt {
        RefInt::new(false, self.mag.clone())
    }
    pub fn cmp(&self, o: &RefInt) -> Ordering {
        match (self.neg, o.neg) {
            (false, false) => self.mag.cmp(&o.mag),
            (true, true) => o.mag.cmp(&self.mag),
            (true, false) => Ordering::Less,
            (false, true) => Ordering::Greater,
        }
    }
    pub fn add(&self, o: &RefInt) -> RefInt {
        if self.neg == o.neg {
            RefInt::new(self.neg, self.mag.add(&o.mag))
        } else {
            match self.mag.cmp(&o.mag) {
                Ordering::Equal => RefInt::zero(),
                Ordering::Greater => RefInt::new(self.neg, self.mag.sub(&o.mag)),
                Ordering::Less => RefInt::new(o.neg, o.mag.sub(&self.mag)),
            }
        }
    }
    pub fn sub(&self, o: &RefInt) -> RefInt {
        self.add(&o.neg())
    }
    pub fn mul(&self, o: &RefInt) -> RefInt {
        RefInt::new(self.neg != o.neg, self.mag.mul(&o.mag))
    }
    /// truncated division (toward zero), remainder has sign of self
    pub fn divrem_trunc(&self, o: &RefInt) -> (RefInt, RefInt) {
        let (q, r) = self.mag.divrem(&o.mag);
        (RefInt::new(self.neg != o.neg, q), RefInt::new(self.neg, r))
    }
    /// floor division, remainder has sign of divisor
    pub fn divrem_floor(&self, o: &RefInt) -> (RefInt, RefInt) {
        let (q, r) = self.divrem_trunc(o);
        if !r.is_zero() && (r.neg != o.neg) {
            (q.sub(&RefInt::from_i128(1)), r.add(o))
        } else {
            (q, r)
        }
    }
    /// euclidean: 0 <= r < |o|
    pub fn divrem_euclid(&self, o: &RefInt) -> (RefInt, RefInt) {
        let (q, r) = self.divrem_trunc(o);
        if r.neg {
            if o.neg {
                (q.add(&RefInt::from_i128(1)), r.sub(o))
            } else {
                (q.sub(&RefInt::from_i128(1)), r.add(o))
            }
        } else {
            (q, r)
        }
    }
    pub fn div_ceil(&self, o: &RefInt) -> RefInt {
        let (q, r) = self.divrem_floor(o);
        if r.is_zero() {
            q
        } else {
            q.add(&RefInt::from_i128(1))
        }
    }
    pub fn shl(&self, k: u64) -> RefInt {
        RefInt::new(self.neg, self.mag.shl(k))
    }
    /// floor(self / 2^k)
    pub fn shr_floor(&self, k: u64) -> RefInt {
        if self.neg {
            let q = self.mag.shr(k);
            if self.mag.low_bits_nonzero(k) {
                RefInt::new(true, q.add(&Nat::one()))
            } else {
                RefInt::new(true, q)
            }
        } else {
            RefInt::new(false, self.mag.shr(k))
        }
    }
    pub fn pow(&self, e: u64) -> RefInt {
        RefInt::new(self.neg && e % 2 == 1, self.mag.pow(e))
    }
    pub fn to_string_radix(&self, radix: u32) -> String {
        let s = self.mag.to_string_radix(radix, false);
        if self.neg {
            format!("-{}", s)
        } else {
            s
        }
    }
    pub fn one() -> RefInt {
        RefInt::from_i128(1)
    }

    // ---- two's complement via ~x = -x-1 ----
    /// (is_complemented, magnitude m): value = m if !c, value = ~m = -m-1 if c
    fn tc(&self) -> (bool, Nat) {
        if self.neg {
            (true, self.mag.sub(&Nat::one()))
        } else {
            (false, self.mag.clone())
        }
    }
    fn from_tc(c: bool, m: Nat) -> RefInt {
        if c {
            RefInt::new(true, m.add(&Nat::one()))
        } else {
            RefInt::new(false, m)
        }
    }
    pub fn not(&self) -> RefInt {
        let (c, m) = self.tc();
        RefInt::from_tc(!c, m)
    }
    pub fn and(&self, o: &RefInt) -> RefInt {
        let (ca, a) = self.tc();
        let (cb, b) = o.tc();
        match (ca, cb) {
            (false, false) => RefInt::from_tc(false, a.and(&b)),
            (false, true) => RefInt::from_tc(false, a.andnot(&b)), // a & ~b
            (true, false) => RefInt::from_tc(false, b.andnot(&a)), // ~a & b
            (true, true) => RefInt::from_tc(true, a.or(&b)),       // ~a & ~b = ~(a|b)
        }
    }
    pub fn or(&self, o: &RefInt) -> RefInt {
        let (ca, a) = self.tc();
        let (cb, b) = o.tc();
        match (ca, cb) {
            (false, false) => RefInt::from_tc(false, a.or(&b)),
            (false, true) => RefInt::from_tc(true, b.andnot(&a)), // a | ~b = ~(b & ~a)
            (true, false) => RefInt::from_tc(true, a.andnot(&b)), // ~a | b = ~(a & ~b)
            (true, true) => RefInt::from_tc(true, a.and(&b)),     // ~a | ~b = ~(a&b)
        }
    }
    pub fn xor(&self, o: &RefInt) -> RefInt {
        let (ca, a) = self.tc();
        let (cb, b) = o.tc();
        RefInt::from_tc(ca != cb, a.xor(&b))
    }
    /// bit i of the infinite two's complement expansion
    pub fn bit(&self, i: u64) -> bool {
        let (c, m) = self.tc();
        m.bit(i) != c
    }
    pub fn set_bit(&self, i: u64, val: bool) -> RefInt {
        let (c, mut m) = self.tc();
        m.set_bit(i, val != c);
        RefInt::from_tc(c, m)
    }
    /// shortest two's-complement little-endian byte encoding
    pub fn to_signed_bytes_le(&self) -> Vec<u8> {
        let (c, m) = self.tc();
        // need n bytes with 8n-1 >= bits(m)
        let n = ((m.bits() + 1 + 7) / 8).max(1) as usize;
        let mut b = m.to_bytes_le();
        b.resize(n, 0);
        if c {
            for x in b.iter_mut() {
                *x = !*x;
            }
        }
        b
    }
    pub fn from_signed_bytes_le(b: &[u8]) -> RefInt {
        if b.is_empty() {
            return RefInt::zero();
        }
        let c = b[b.len() - 1] & 0x80 != 0;
        if c {
            let inv: Vec<u8> = b.iter().map(|x| !x).collect();
            RefInt::from_tc(true, Nat::from_bytes_le(&inv))
        } else {
            RefInt::from_tc(false, Nat::from_bytes_le(b))
        }
    }
    pub fn gcd(&self, o: &RefInt) -> RefInt {
        RefInt::from_nat(self.mag.gcd(&o.mag))
    }
    pub fn to_f64(&self) -> f64 {
        let f = self.mag.to_f64();
        if self.neg {
            -f
        } else {
            f
        }
    }
    pub fn to_f32(&self) -> f32 {
        let f = self.mag.to_f32();
        if self.neg {
            -f
        } else {
            f
        }
    }
    pub fn hex(&self) -> String {
        self.to_string_radix(16)
    }
}

/// Decode an f64 into (negative, integer part truncated toward zero); None for NaN/inf.
pub fn trunc_f64(x: f64) -> Option<RefInt> {
    let bits = x.to_bits();
    let neg = bits >> 63 == 1;
    let e = ((bits >> 52) & 0x7ff) as i64;
    let frac = bits & ((1u64 << 52) - 1);
    if e == 0x7ff {
        return None;
    }
    let (sig, exp) = if e == 0 { (frac, -1074i64) } else { (frac | (1 << 52), e - 1075) };
    let mag = if exp >= 0 {
        Nat::from_u64(sig).shl(exp as u64)
    } else if -exp >= 64 {
        Nat::zero()
    } else {
        Nat::from_u64(sig >> (-exp))
    };
    Some(RefInt::new(neg, mag))
}

pub fn trunc_f32(x: f32) -> Option<RefInt> {
    let bits = x.to_bits();
    let neg = bits >> 31 == 1;
    let e = ((bits >> 23) & 0xff) as i64;
    let frac = (bits & ((1u32 << 23) - 1)) as u64;
    if e == 0xff {
        return None;
    }
    let (sig, exp) = if e == 0 { (frac, -149i64) } else { (frac | (1 << 23), e - 150) };
    let mag = if exp >= 0 {
        Nat::from_u64(sig).shl(exp as u64)
    } else if -exp >= 64 {
        Nat::zero()
    } else {
        Nat::from_u64(sig >> (-exp))
    };
    Some(RefInt::new(neg, mag))
}
