//! Minimal JSON value + renderer (evidence files).
#[derive(Clone, Debug)]
pub enum J {
    Null,
    Bool(bool),
    Int(i64),
    Float(f64),
    Str(String),
    Arr(Vec<J>),
    Obj(Vec<(String, J)>),
}

impl J {
    pub fn render(&self) -> String {
        let mut s = String::new();
        self.w(&mut s, 0);
        s
    }
    fn w(&self, s: &mut String, ind: usize) {
        match self {
            J::Null => s.push_str("null"),
            J::Bool(b) => s.push_str(if *b { "true" } else { "false" }),
            J::Int(i) => s.push_str(&i.to_string()),
            J::Float(f) => {
                if f.is_finite() {
                    s.push_str(&format!("{:.3}", f))
                } else {
                    s.push_str("0")
                }
            }
            J::Str(t) => esc(s, t),
            J::Arr(v) => {
                if v.is_empty() {
                    s.push_str("[]");
                    return;
                }
                s.push_str("[\n");
                for (i, x) in v.iter().enumerate() {
                    s.push_str(&" ".repeat(ind + 1));
                    x.w(s, ind + 1);
                    if i + 1 < v.len() {
                        s.push(',');
                    }
                    s.push('\n');
                }
                s.push_str(&" ".repeat(ind));
                s.push(']');
            }
            J::Obj(v) => {
                if v.is_empty() {
                    s.push_str("{}");
                    return;
                }
                s.push_str("{\n");
                for (i, (k, x)) in v.iter().enumerate() {
                    s.push_str(&" ".repeat(ind + 1));
                    esc(s, k);
                    s.push_str(": ");
                    x.w(s, ind + 1);
                    if i + 1 < v.len() {
                        s.push(',');
                    }
                    s.push('\n');
                }
                s.push_str(&" ".repeat(ind));
                s.push('}');
            }
        }
    }
}

fn esc(s: &mut String, t: &str) {
    s.push('"');
    for c in t.chars() {
        match c {
            '"' => s.push_str("\\\""),
            '\\' => s.push_str("\\\\"),
            '\n' => s.push_str("\\n"),
            '\r' => s.push_str("\\r"),
            '\t' => s.push_str("\\t"),
            c if (c as u32) < 0x20 => s.push_str(&format!("\\u{:04x}", c as u32)),
            c => s.push(c),
        }
    }
    s.push('"');
}
