//! Dump RefInt computations for cross-validation against CPython (`tools/oracle_check.py`).
use crate::gen::{expand, SPECIAL};
use crate::refint::{Nat, RefInt};

struct Sm(u64);
impl Sm {
    fn next(&mut self) -> u64 {
        self.0 = self.0.wrapping_add(0x9E3779B97F4A7C15);
        let mut z = self.0;
        z = (z ^ (z >> 30)).wrapping_mul(0xBF58476D1CE4E5B9);
        z = (z ^ (z >> 27)).wrapping_mul(0x94D049BB133111EB);
        z ^ (z >> 31)
    }
    fn nat(&mut self, max_len: u64) -> Nat {
        let len = (self.next() % (max_len + 1)) as usize;
        let kind = self.next() as u8;
        let mut d = expand(kind, self.next(), len);
        if self.next() % 4 == 0 && !d.is_empty() {
            let i = (self.next() as usize) % d.len();
            d[i] = SPECIAL[(self.next() as usize) % SPECIAL.len()];
        }
        Nat::from_u64_digits(&d)
    }
    fn int(&mut self, max_len: u64) -> RefInt {
        let n = self.nat(max_len);
        RefInt::new(self.next() & 1 == 1, n)
    }
}

fn h(x: &RefInt) -> String {
    x.to_string_radix(16)
}
fn hn(x: &Nat) -> String {
    x.to_string_radix(16, false)
}

pub fn dump(n: usize, seed: u64) {
    let mut r = Sm(seed);
    let mut out = String::new();
    for i in 0..n {
        let a = r.int(6);
        let b = r.int(6);
        match i % 20 {
            0 => out.push_str(&format!("add\t{}\t{}\t{}\n", h(&a), h(&b), h(&a.add(&b)))),
            1 => out.push_str(&format!("sub\t{}\t{}\t{}\n", h(&a), h(&b), h(&a.sub(&b)))),
            2 => {
                let a = r.int(20);
                let b = r.int(20);
                out.push_str(&format!("mul\t{}\t{}\t{}\n", h(&a), h(&b), h(&a.mul(&b))))
            }
            3 => {
                let a = r.int(12);
                if !b.is_zero() {
                    let (q, m) = a.divrem_trunc(&b);
                    out.push_str(&format!("divtrunc\t{}\t{}\t{}\t{}\n", h(&a), h(&b), h(&q), h(&m)));
                    let (q, m) = a.divrem_floor(&b);
                    out.push_str(&format!("divfloor\t{}\t{}\t{}\t{}\n", h(&a), h(&b), h(&q), h(&m)));
                    let (q, m) = a.divrem_euclid(&b);
                    out.push_str(&format!("diveuclid\t{}\t{}\t{}\t{}\n", h(&a), h(&b), h(&q), h(&m)));
                    out.push_str(&format!("divceil\t{}\t{}\t{}\n", h(&a), h(&b), h(&a.div_ceil(&b))));
                }
            }
            4 => {
                let k = r.next() % 300;
                out.push_str(&format!("shl\t{}\t{}\t{}\n", h(&a), k, h(&a.shl(k))));
                out.push_str(&format!("shr\t{}\t{}\t{}\n", h(&a), k, h(&a.shr_floor(k))));
            }
            5 => out.push_str(&format!("and\t{}\t{}\t{}\n", h(&a), h(&b), h(&a.and(&b)))),
            6 => out.push_str(&format!("or\t{}\t{}\t{}\n", h(&a), h(&b), h(&a.or(&b)))),
            7 => out.push_str(&format!("xor\t{}\t{}\t{}\n", h(&a), h(&b), h(&a.xor(&b)))),
            8 => out.push_str(&format!("not\t{}\t{}\n", h(&a), h(&a.not()))),
            9 => {
                let a = r.int(2);
                let e = r.next() % 40;
                out.push_str(&format!("pow\t{}\t{}\t{}\n", h(&a), e, h(&a.pow(e))));
            }
            10 => out.push_str(&format!("gcd\t{}\t{}\t{}\n", h(&a), h(&b), h(&a.gcd(&b)))),
            11 => {
                let radix = (r.next() % 35 + 2) as u32;
                let s = a.to_string_radix(radix);
                out.push_str(&format!("str\t{}\t{}\t{}\n", h(&a), radix, s));
                let radix = (r.next() % 255 + 2) as u32;
                let d = a.mag.to_radix_le(radix);
                let ds: Vec<String> = d.iter().map(|x| x.to_string()).collect();
                out.push_str(&format!("radixle\t{}\t{}\t{}\n", hn(&a.mag), radix, ds.join(",")));
                let be: Vec<u32> = d.iter().rev().cloned().collect();
                out.push_str(&format!("fromradix\t{}\t{}\t{}\n", ds.join(","), radix, hn(&Nat::from_radix_be(&be, radix))));
            }
            12 => {
                // float rounding with tie patterns
                let mut m = r.nat(3);
                let sh = r.next() % 1100;
                m = m.shl(sh);
                if r.next() % 2 == 0 {
                    m = m.add(&Nat::pow2(r.next() % (sh + 1)));
                }
                let x = RefInt::new(r.next() & 1 == 1, m);
                out.push_str(&format!("f64\t{}\t{:016x}\n", h(&x), x.to_f64().to_bits()));
                out.push_str(&format!("f32\t{}\t{:08x}\n", h(&x), x.to_f32().to_bits()));
            }
            13 => {
                let bytes = a.to_signed_bytes_le();
                let hs: String = bytes.iter().map(|b| format!("{:02x}", b)).collect();
                out.push_str(&format!("sbytes\t{}\t{}\n", h(&a), hs));
                let back = RefInt::from_signed_bytes_le(&bytes);
                out.push_str(&format!("fromsbytes\t{}\t{}\n", hs, h(&back)));
            }
            14 => {
                let b = r.nat(3);
                let e = r.nat(2);
                let mut m = r.nat(3);
                if m.is_zero() {
                    m = Nat::one();
                }
                out.push_str(&format!("modpow\t{}\t{}\t{}\t{}\n", hn(&b), hn(&e), hn(&m), hn(&b.modpow(&e, &m))));
            }
            15 => {
                let i = r.next() % 500;
                out.push_str(&format!("bit\t{}\t{}\t{}\n", h(&a), i, a.bit(i) as u8));
                let v = r.next() & 1 == 1;
                out.push_str(&format!("setbit\t{}\t{}\t{}\t{}\n", h(&a), i, v as u8, h(&a.set_bit(i, v))));
            }
            16 => {
                out.push_str(&format!(
                    "bitinfo\t{}\t{}\t{}\t{}\t{}\n",
                    hn(&a.mag),
                    a.mag.bits(),
                    a.mag.trailing_zeros().map_or(-1, |x| x as i64),
                    a.mag.trailing_ones(),
                    a.mag.count_ones()
                ));
            }
            17 => {
                let f = f64::from_bits(r.next());
                let t = crate::refint::trunc_f64(f);
                out.push_str(&format!("truncf64\t{:016x}\t{}\n", f.to_bits(), t.map_or("none".into(), |x| h(&x))));
                let g = f32::from_bits(r.next() as u32);
                let t = crate::refint::trunc_f32(g);
                out.push_str(&format!("truncf32\t{:08x}\t{}\n", g.to_bits(), t.map_or("none".into(), |x| h(&x))));
            }
            18 => {
                let p = crate::refint::FP_PRIMES[(r.next() % 3) as usize];
                out.push_str(&format!("fp\t{}\t{}\t{}\n", hn(&a.mag), p, a.mag.fingerprint(p)));
                out.push_str(&format!("fp\t{}\t{}\t{}\n", hn(&a.mag), p, crate::refint::fingerprint_u64_digits(&a.mag.to_u64_digits(), p)));
            }
            _ => {
                out.push_str(&format!("cmp\t{}\t{}\t{}\n", h(&a), h(&b), a.cmp(&b) as i32));
            }
        }
    }
    print!("{}", out);
}
