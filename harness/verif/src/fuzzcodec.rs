//! Byte-level codec between libFuzzer inputs and `Case` values (hand-written data provider).
//! Digits are decoded through the special alphabet (one selector byte per digit, the uniform arm
//! reads 8 more bytes) so that byte mutations move between interesting digits.  `encode` is the
//! inverse used to export proptest-generated cases as a starting corpus.
use crate::gen::SPECIAL;
use nbcase::{Arg, Case};

#[derive(Clone, Copy, Debug, PartialEq)]
pub enum Sh {
    N(usize),      // natural, at most this many digits
    Z(usize),      // integer
    Radix(u32),    // 2..=max
    I,             // scalar i128 (special table or raw)
    U,             // scalar u128
    Amount,        // shift amount / bit index relative to a small range
    Bool,
    B(usize),      // byte string, at most this long
    Sign3,         // -1, 0, 1
    Zero,          // literal U(0)
    Steps,         // C04 history: list of (op, operand, derivation mode, small)
    ISteps,        // C09 iterator history: list of step codes
    Small(u32),    // small unsigned value below the bound
    BitSize,       // C18 bit size
    SmallU(u32),   // small unsigned value below the bound, as Arg::U
    Exp,           // C12 exponent: one byte, or (for the trivial bases) up to two digits
    Toks,          // C17 token stream: list of (kind, value)
}

pub struct OpSpec {
    pub op: &'static str,
    pub owner: &'static str,
    pub shape: &'static [Sh],
}

pub const OPS: &[OpSpec] = &[
    OpSpec { op: "addsub.u", owner: "C01", shape: &[Sh::N(40), Sh::N(40)] },
    OpSpec { op: "addsub.i", owner: "C01", shape: &[Sh::Z(40), Sh::Z(40)] },
    OpSpec { op: "addsub.s", owner: "C01", shape: &[Sh::Z(4), Sh::I] },
    OpSpec { op: "mul.u", owner: "C02", shape: &[Sh::N(70), Sh::N(70)] },
    OpSpec { op: "mul.i", owner: "C02", shape: &[Sh::Z(70), Sh::Z(70)] },
    OpSpec { op: "mul.s", owner: "C02", shape: &[Sh::Z(6), Sh::I] },
    OpSpec { op: "div.u", owner: "C03", shape: &[Sh::N(40), Sh::N(20)] },
    OpSpec { op: "div.i", owner: "C03", shape: &[Sh::Z(40), Sh::Z(20)] },
    OpSpec { op: "div.us", owner: "C03", shape: &[Sh::N(6), Sh::U] },
    OpSpec { op: "modpow.u", owner: "C05", shape: &[Sh::N(8), Sh::N(3), Sh::N(6)] },
    OpSpec { op: "modpow.i", owner: "C05", shape: &[Sh::Z(8), Sh::Z(3), Sh::Z(6)] },
    OpSpec { op: "modinv.u", owner: "C05", shape: &[Sh::N(8), Sh::N(6)] },
    OpSpec { op: "modinv.i", owner: "C05", shape: &[Sh::Z(8), Sh::Z(6)] },
    OpSpec { op: "tostr", owner: "C06", shape: &[Sh::Z(70), Sh::Radix(36)] },
    OpSpec { op: "toradix", owner: "C06", shape: &[Sh::Z(70), Sh::Radix(256)] },
    OpSpec { op: "parse", owner: "C06", shape: &[Sh::B(120), Sh::Radix(36)] },
    OpSpec { op: "fromradix", owner: "C06", shape: &[Sh::B(120), Sh::Radix(256), Sh::Sign3] },
    OpSpec { op: "bitop.i", owner: "C07", shape: &[Sh::Z(12), Sh::Z(12)] },
    OpSpec { op: "shift.i", owner: "C07", shape: &[Sh::Z(12), Sh::Amount, Sh::Zero] },
    OpSpec { op: "bit", owner: "C07", shape: &[Sh::Z(12), Sh::Amount, Sh::Bool] },
    OpSpec { op: "tofloat", owner: "C08", shape: &[Sh::Z(20)] },
    OpSpec { op: "toprim.i", owner: "C08", shape: &[Sh::Z(3)] },
    OpSpec { op: "export.i", owner: "C09", shape: &[Sh::Z(8)] },
    OpSpec { op: "import.bytes", owner: "C09", shape: &[Sh::B(64)] },
    OpSpec { op: "scalar", owner: "C10", shape: &[Sh::Z(4), Sh::I] },
    OpSpec { op: "bigbig", owner: "C10", shape: &[Sh::Z(6), Sh::Z(6)] },
    OpSpec { op: "gcd.i", owner: "C13", shape: &[Sh::Z(8), Sh::Z(8)] },
    OpSpec { op: "hist", owner: "C04", shape: &[Sh::Z(6), Sh::Steps] },
    OpSpec { op: "iter", owner: "C09", shape: &[Sh::Z(5), Sh::ISteps, Sh::Small(4), Sh::Small(4)] },
    OpSpec { op: "bits", owner: "C18", shape: &[Sh::B(96), Sh::U, Sh::BitSize] },
    OpSpec { op: "range", owner: "C18", shape: &[Sh::B(96), Sh::U, Sh::Z(3), Sh::Z(3)] },
    OpSpec { op: "fromf64", owner: "C08", shape: &[Sh::U] },
    OpSpec { op: "pow", owner: "C12", shape: &[Sh::Z(2), Sh::Exp] },
    OpSpec { op: "ser", owner: "C17", shape: &[Sh::Z(8)] },
    OpSpec { op: "de", owner: "C17", shape: &[Sh::Toks, Sh::Small(6), Sh::I, Sh::Small(5)] },
    OpSpec { op: "value", owner: "C19", shape: &[Sh::Z(6), Sh::SmallU(255)] },
    OpSpec { op: "abs_sub", owner: "C19", shape: &[Sh::Z(6), Sh::Z(6)] },
    OpSpec { op: "pair", owner: "C19", shape: &[Sh::Sign3, Sh::N(6)] },
];

const TOK_TABLE: [u64; 12] = [0, 1, 2, 0x7fff_ffff, 0x8000_0000, 0xffff_fffe, 0xffff_ffff, 0x1_0000_0000, 0x1_0000_0001, 0xffff_ffff_0000_0000, u64::MAX - 1, u64::MAX];

const I_TABLE: [i128; 24] = [
    0, 1, -1, 2, -2, 127, -128, 255, 256, 65535, i32::MAX as i128, i32::MIN as i128, u32::MAX as i128, u32::MAX as i128 + 1,
    i64::MAX as i128, i64::MIN as i128, u64::MAX as i128, u64::MAX as i128 + 1, -(u64::MAX as i128), i128::MAX, i128::MIN, i128::MIN + 1, 1 << 96, -(1 << 96),
];
const AMOUNTS: [i128; 16] = [0, 1, 2, 31, 32, 33, 63, 64, 65, 127, 128, 129, 191, 192, 193, 700];

struct Cur<'a> {
    d: &'a [u8],
    i: usize,
}
impl<'a> Cur<'a> {
    fn byte(&mut self) -> u8 {
        let b = self.d.get(self.i).copied().unwrap_or(0);
        self.i += 1;
        b
    }
    fn u64(&mut self) -> u64 {
        let mut v = 0u64;
        for k in 0..8 {
            v |= (self.byte() as u64) << (8 * k);
        }
        v
    }
    fn digits(&mut self, max: usize) -> Vec<u64> {
        let n = (self.byte() as usize) % (max + 1);
        let mut v = Vec::with_capacity(n);
        for _ in 0..n {
            let s = self.byte() % 24;
            if (s as usize) < SPECIAL.len() {
                v.push(SPECIAL[s as usize]);
            } else {
                v.push(self.u64());
            }
        }
        while let Some(&0) = v.last() {
            v.pop();
        }
        v
    }
}

/// first byte selects the operation among `allowed` (indices into OPS)
pub fn decode(data: &[u8], allowed: &[usize]) -> Option<Case> {
    if data.is_empty() || allowed.is_empty() {
        return None;
    }
    let mut c = Cur { d: data, i: 0 };
    let spec = &OPS[allowed[(c.byte() as usize) % allowed.len()]];
    let mut args = vec![];
    for sh in spec.shape {
        args.push(match *sh {
            Sh::N(m) => Arg::N(c.digits(m)),
            Sh::Z(m) => {
                let neg = c.byte() & 1 == 1;
                Arg::Z(neg, c.digits(m))
            }
            Sh::Radix(max) => Arg::U((2 + (c.byte() as u32) % (max - 1)) as u128),
            Sh::I => {
                let s = c.byte();
                if s < 200 {
                    Arg::I(I_TABLE[(s as usize) % I_TABLE.len()])
                } else {
                    let lo = c.u64() as u128;
                    let hi = c.u64() as u128;
                    Arg::I((lo | (hi << 64)) as i128)
                }
            }
            Sh::U => {
                let s = c.byte();
                if s < 128 {
                    Arg::U(I_TABLE[(s as usize) % I_TABLE.len()].unsigned_abs())
                } else {
                    let lo = c.u64() as u128;
                    let hi = c.u64() as u128;
                    Arg::U(lo | (hi << 64))
                }
            }
            Sh::Amount => {
                let s = c.byte();
                let sp = matches!(spec.op, "bit");
                let v = if s < 128 { AMOUNTS[(s as usize) % AMOUNTS.len()] } else { (c.byte() as i128) * 4 + (s as i128 % 4) };
                if sp {
                    Arg::U(v as u128)
                } else if s == 255 {
                    Arg::I(-1 - (c.byte() as i128))
                } else {
                    Arg::I(v)
                }
            }
            Sh::Bool => Arg::I((c.byte() & 1) as i128),
            Sh::B(max) => {
                let n = (c.byte() as usize) % (max + 1);
                Arg::B((0..n).map(|_| c.byte()).collect())
            }
            Sh::Sign3 => Arg::I((c.byte() % 3) as i128 - 1),
            Sh::Zero => Arg::U(0),
            Sh::ISteps => {
                let n = (c.byte() as usize) % 16;
                let mut steps = vec![];
                for _ in 0..n {
                    let b = c.byte();
                    let code: i128 = match b % 16 {
                        0..=4 => 0,
                        5..=9 => 1,
                        10 => 2,
                        11 => 3,
                        12 => 4 + (c.byte() % 8) as i128,
                        13 => 4 + usize::MAX as i128,
                        14 => 4 + (usize::MAX / 2) as i128 + (c.byte() % 2) as i128,
                        _ => 4 + usize::MAX as i128 - 1,
                    };
                    steps.push(Arg::I(code));
                }
                Arg::L(steps)
            }
            Sh::Small(m) => Arg::I((c.byte() as u32 % m) as i128),
            Sh::BitSize => {
                let b = c.byte();
                let v = c.byte() as u128;
                Arg::U(match b % 4 { 0 => v % 131, 1 => (v % 65) * 32 + (b as u128 / 4) % 3, 2 => (v % 33) * 64 + (b as u128 / 4) % 3, _ => v * 8 + (b as u128 / 4) % 8 })
            }
            Sh::SmallU(m) => Arg::U((c.byte() as u32 % m) as u128),
            Sh::Exp => {
                let k = c.byte();
                if k % 4 < 3 {
                    let e = c.byte() as u64;
                    Arg::N(if e == 0 { vec![] } else { vec![e] })
                } else {
                    Arg::N(c.digits(2))
                }
            }
            Sh::Toks => {
                let n = (c.byte() as usize) % 14;
                let mut toks = vec![];
                for _ in 0..n {
                    let kind = (c.byte() % 3) as i128;
                    let s = c.byte();
                    let val = if (s as usize) < TOK_TABLE.len() * 8 { TOK_TABLE[s as usize % TOK_TABLE.len()] } else { c.u64() };
                    toks.push(Arg::L(vec![Arg::I(kind), Arg::U(val as u128)]));
                }
                Arg::L(toks)
            }
            Sh::Steps => {
                let n = (c.byte() as usize) % 25;
                let mut steps = vec![];
                for _ in 0..n {
                    let op = (c.byte() % 24) as i128;
                    let neg = c.byte() & 1 == 1;
                    let d = c.digits(3);
                    let mode = (c.byte() % 8) as i128;
                    let small = c.u64();
                    steps.push(Arg::L(vec![Arg::I(op), Arg::Z(neg, d), Arg::I(mode), Arg::U(small as u128)]));
                }
                Arg::L(steps)
            }
        });
    }
    Some(Case::new(spec.op, args))
}

fn enc_digits(out: &mut Vec<u8>, v: &[u64], max: usize) -> Option<()> {
    if v.len() > max || max > 255 {
        return None;
    }
    out.push(v.len() as u8);
    for d in v {
        match SPECIAL.iter().position(|s| s == d) {
            Some(i) => out.push(i as u8),
            None => {
                out.push(23);
                out.extend_from_slice(&d.to_le_bytes());
            }
        }
    }
    Some(())
}

/// inverse of `decode` for cases inside the codec's domain (None otherwise)
pub fn encode(case: &Case, allowed: &[usize]) -> Option<Vec<u8>> {
    let pos = allowed.iter().position(|&i| OPS[i].op == case.op)?;
    let spec = &OPS[allowed[pos]];
    if spec.shape.len() != case.args.len() {
        return None;
    }
    let mut out = vec![pos as u8];
    for (sh, a) in spec.shape.iter().zip(case.args.iter()) {
        match (*sh, a) {
            (Sh::N(m), Arg::N(v)) => enc_digits(&mut out, v, m)?,
            (Sh::Z(m), Arg::Z(neg, v)) => {
                out.push(*neg as u8);
                enc_digits(&mut out, v, m)?
            }
            (Sh::Radix(max), Arg::U(r)) => {
                if *r < 2 || *r > max as u128 {
                    return None;
                }
                out.push((*r - 2) as u8)
            }
            (Sh::I, Arg::I(v)) => match I_TABLE.iter().position(|t| t == v) {
                Some(i) => out.push(i as u8),
                None => {
                    out.push(200);
                    out.extend_from_slice(&(*v as u128).to_le_bytes());
                }
            },
            (Sh::U, Arg::U(v)) => {
                out.push(128);
                out.extend_from_slice(&v.to_le_bytes());
            }
            (Sh::Amount, Arg::I(v)) => {
                if *v < 0 {
                    if *v < -256 {
                        return None;
                    }
                    out.push(255);
                    out.push((-1 - *v) as u8);
                } else {
                    match AMOUNTS.iter().position(|t| t == v) {
                        Some(i) => out.push(i as u8),
                        None => {
                            if *v >= 1024 {
                                return None;
                            }
                            out.push(128 + (*v % 4) as u8);
                            out.push((*v / 4) as u8);
                        }
                    }
                }
            }
            (Sh::Amount, Arg::U(v)) => match AMOUNTS.iter().position(|t| *t as u128 == *v) {
                Some(i) => out.push(i as u8),
                None => {
                    if *v >= 1024 {
                        return None;
                    }
                    out.push(128 + (*v % 4) as u8);
                    out.push((*v / 4) as u8);
                }
            },
            (Sh::Bool, Arg::I(v)) => out.push((*v != 0) as u8),
            (Sh::B(max), Arg::B(b)) => {
                if b.len() > max {
                    return None;
                }
                out.push(b.len() as u8);
                out.extend_from_slice(b);
            }
            (Sh::Sign3, Arg::I(v)) => out.push((*v + 1) as u8),
            (Sh::Zero, Arg::U(_)) => {}
            (Sh::SmallU(m), Arg::U(v)) => {
                if *v >= m as u128 {
                    return None;
                }
                out.push(*v as u8)
            }
            (Sh::Exp, Arg::N(v)) => {
                if v.is_empty() || (v.len() == 1 && v[0] <= 255) {
                    out.push(0);
                    out.push(v.first().copied().unwrap_or(0) as u8);
                } else {
                    out.push(3);
                    enc_digits(&mut out, v, 2)?;
                }
            }
            (Sh::ISteps, _) | (Sh::Small(_), _) | (Sh::BitSize, _) | (Sh::Toks, _) => return None, // fuzz-only shapes: no seed export
            (Sh::Steps, Arg::L(steps)) => {
                if steps.len() > 24 {
                    return None;
                }
                out.push(steps.len() as u8);
                for st in steps {
                    let st = match st { Arg::L(v) if v.len() == 4 => v, _ => return None };
                    let (op, mode, small) = match (&st[0], &st[2], &st[3]) { (Arg::I(o), Arg::I(m), Arg::U(s)) => (*o, *m, *s), _ => return None };
                    if !(0..24).contains(&op) || !(0..8).contains(&mode) || small > u64::MAX as u128 {
                        return None;
                    }
                    out.push(op as u8);
                    match &st[1] {
                        Arg::Z(neg, d) => {
                            out.push(*neg as u8);
                            enc_digits(&mut out, d, 3)?;
                        }
                        _ => return None,
                    }
                    out.push(mode as u8);
                    out.extend_from_slice(&(small as u64).to_le_bytes());
                }
            }
            _ => return None,
        }
    }
    Some(out)
}

/// indices of OPS owned by a property (all if `owner` is None)
pub fn ops_of(owner: Option<&str>) -> Vec<usize> {
    OPS.iter().enumerate().filter(|(_, o)| owner.map_or(true, |w| o.owner == w)).map(|(i, _)| i).collect()
}
