//! Conversions between the three worlds: Case digits, library values, RefInt.
use crate::refint::{Nat, RefInt};
use num_bigint::{BigInt, BigUint, Sign};

pub fn bu(d: &[u64]) -> BigUint {
    // built through the public u32-slice constructor from the u64 digits
    let mut v = Vec::with_capacity(d.len() * 2);
    for &x in d {
        v.push(x as u32);
        v.push((x >> 32) as u32);
    }
    BigUint::new(v)
}
pub fn bi(neg: bool, d: &[u64]) -> BigInt {
    BigInt::from_biguint(if neg { Sign::Minus } else { Sign::Plus }, bu(d))
}
pub fn rn(d: &[u64]) -> Nat {
    Nat::from_u64_digits(d)
}
pub fn ri(neg: bool, d: &[u64]) -> RefInt {
    RefInt::from_digits(neg, d)
}

/// Compare a library BigUint with the expected natural, *through the public digit export*, and
/// check canonical form of that export.
pub fn eq_bu(got: &BigUint, want: &Nat) -> Result<(), String> {
    let d = got.to_u64_digits();
    if d.last() == Some(&0) {
        return Err(format!("result is not canonical: to_u64_digits ends in a zero digit ({} digits)", d.len()));
    }
    if d != want.to_u64_digits() {
        return Err(format!(
            "wrong value: got 0x{} want 0x{}",
            crate::engine::trunc(&Nat::from_u64_digits(&d).to_string_radix(16, false), 300),
            crate::engine::trunc(&want.to_string_radix(16, false), 300)
        ));
    }
    Ok(())
}

pub fn eq_bi(got: &BigInt, want: &RefInt) -> Result<(), String> {
    let (s, d) = got.to_u64_digits();
    if d.last() == Some(&0) {
        return Err("result is not canonical: magnitude digits end in a zero digit".into());
    }
    let want_sign = match want.signum() {
        0 => Sign::NoSign,
        1 => Sign::Plus,
        _ => Sign::Minus,
    };
    if d != want.mag.to_u64_digits() || s != want_sign {
        return Err(format!(
            "wrong value: got {:?} 0x{} want {}0x{}",
            s,
            crate::engine::trunc(&Nat::from_u64_digits(&d).to_string_radix(16, false), 300),
            if want.neg { "-" } else { "" },
            crate::engine::trunc(&want.mag.to_string_radix(16, false), 300)
        ));
    }
    if (s == Sign::NoSign) != d.is_empty() {
        return Err(format!("sign/magnitude inconsistent: sign {:?} with {} digits", s, d.len()));
    }
    Ok(())
}

pub fn nat_of_bu(x: &BigUint) -> Nat {
    Nat::from_u64_digits(&x.to_u64_digits())
}
pub fn ref_of_bi(x: &BigInt) -> RefInt {
    let (s, d) = x.to_u64_digits();
    RefInt::from_digits(s == Sign::Minus, &d)
}

pub fn ctx<T>(r: Result<T, String>, what: &str) -> Result<T, String> {
    r.map_err(|e| format!("{}: {}", what, e))
}
