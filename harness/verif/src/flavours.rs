//! Client for the `nbexec` flavour executors (num-bigint built with different feature sets and
//! profiles).  One set of persistent children per worker process, line protocol.
use nbcase::Case;
use std::io::{BufRead, BufReader, Write};
use std::path::PathBuf;
use std::process::{Child, ChildStdin, ChildStdout, Command, Stdio};
use std::sync::Mutex;

pub const FLAVOURS: [&str; 4] = ["std_all", "std", "nostd_rs", "nostd"];
pub const PROFILES: [&str; 2] = ["release", "dbg"];

pub struct Exec {
    pub name: String,
    child: Child,
    stdin: ChildStdin,
    stdout: BufReader<ChildStdout>,
}

impl Exec {
    pub fn run(&mut self, case_text: &str) -> Result<String, String> {
        writeln!(self.stdin, "{}", case_text).map_err(|e| format!("{}: write: {}", self.name, e))?;
        self.stdin.flush().map_err(|e| format!("{}: flush: {}", self.name, e))?;
        let mut line = String::new();
        let n = self.stdout.read_line(&mut line).map_err(|e| format!("{}: read: {}", self.name, e))?;
        if n == 0 {
            let st = self.child.wait().ok();
            return Err(format!("{}: executor died ({:?})", self.name, st));
        }
        Ok(line.trim_end().to_string())
    }
}

pub fn flavour_dir() -> PathBuf {
    let vd = std::env::var("VERIF_DIR").unwrap_or_else(|_| "/verif".into());
    PathBuf::from(vd).join("harness/target/fl")
}

fn spawn(fl: &str, prof: &str) -> Result<Exec, String> {
    let p = flavour_dir().join(fl).join(prof).join("nbexec");
    let mut child = Command::new(&p)
        .stdin(Stdio::piped())
        .stdout(Stdio::piped())
        .stderr(Stdio::null())
        .spawn()
        .map_err(|e| format!("cannot start {}: {}", p.display(), e))?;
    let stdin = child.stdin.take().unwrap();
    let stdout = BufReader::new(child.stdout.take().unwrap());
    Ok(Exec {
        name: format!("{}/{}", fl, prof),
        child,
        stdin,
        stdout,
    })
}

static ALL: Mutex<Option<Vec<Exec>>> = Mutex::new(None);

/// Run the case in every requested flavour; returns (flavour name, outcome).  A missing or dead
/// executor is a harness problem: exit 2 (inconclusive), except that a died executor is
/// reported as an error string so the caller can decide (a crash on an input is a finding).
pub fn run_all(case: &Case, only: &[&str]) -> Vec<(String, Result<String, String>)> {
    let mut g = ALL.lock().unwrap();
    if g.is_none() {
        let mut v = vec![];
        for fl in FLAVOURS {
            for prof in PROFILES {
                match spawn(fl, prof) {
                    Ok(e) => v.push(e),
                    Err(m) => {
                        eprintln!("FLAVOUR-ERROR: {}", m);
                        std::process::exit(2);
                    }
                }
            }
        }
        *g = Some(v);
    }
    let text = case.to_text();
    let execs = g.as_mut().unwrap();
    let mut out = vec![];
    for i in 0..execs.len() {
        let fl = execs[i].name.split('/').next().unwrap().to_string();
        if !only.is_empty() && !only.contains(&fl.as_str()) {
            continue;
        }
        let r = execs[i].run(&text);
        if r.is_err() {
            // restart for subsequent cases
            let name = execs[i].name.clone();
            let mut parts = name.split('/');
            let (f, p) = (parts.next().unwrap(), parts.next().unwrap());
            if let Ok(e) = spawn(f, p) {
                execs[i] = e;
            }
        }
        out.push((execs[i].name.clone(), r));
    }
    out
}
