pub mod engine;
pub mod flavours;
pub mod fuzzcodec;
pub mod gen;
pub mod guard;
pub mod json;
pub mod lib_util;
pub mod props;
pub mod refint;
pub mod refint_selftest;

#[global_allocator]
static GLOBAL: guard::GuardAlloc = guard::GuardAlloc;
