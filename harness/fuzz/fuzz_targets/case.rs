//! libFuzzer target: bytes -> Case (verif::fuzzcodec) -> the owning property's oracle.
//! The semantic oracle is inside the target; documented panics are classified by the oracle,
//! not reported as crashes.  FUZZ_OWNER=<ID> restricts the operations to one property.
#![no_main]
use libfuzzer_sys::fuzz_target;
use std::sync::OnceLock;

static ALLOWED: OnceLock<Vec<usize>> = OnceLock::new();

fuzz_target!(|data: &[u8]| {
    let allowed = ALLOWED.get_or_init(|| {
        verif::engine::install_quiet_hook();
        let owner = std::env::var("FUZZ_OWNER").ok();
        verif::fuzzcodec::ops_of(owner.as_deref().filter(|s| *s != "all"))
    });
    if let Some(case) = verif::fuzzcodec::decode(data, allowed) {
        if let Some(owner) = verif::props::owner_of_op(&case.op) {
            match verif::engine::catch(|| owner.check(&case)) {
                Ok(Ok(_)) => {}
                Ok(Err(m)) if m.starts_with("harness:") => {}
                Ok(Err(m)) => {
                    eprintln!("FUZZ-VIOLATION property={} case={} :: {}", owner.id(), case.to_text(), m);
                    std::process::abort();
                }
                Err(p) => {
                    eprintln!("FUZZ-VIOLATION property={} case={} :: panic outside a documented failure case: {}", owner.id(), case.to_text(), p);
                    std::process::abort();
                }
            }
        }
    }
});
