//! stdin: one case text per line; stdout: one outcome line per case.
use std::io::{BufRead, Write};
fn main() {
    nbcase::exec::install_quiet_hook();
    let stdin = std::io::stdin();
    let stdout = std::io::stdout();
    let mut out = stdout.lock();
    for line in stdin.lock().lines() {
        let line = match line {
            Ok(l) => l,
            Err(_) => break,
        };
        let r = match nbcase::Case::from_text(&line) {
            Ok(c) => nbcase::exec::exec(&c),
            Err(e) => format!("parse-error {}", e),
        };
        let _ = writeln!(out, "{}", r.replace('\n', " "));
        let _ = out.flush();
    }
}
